"""C03 -- The ANSI stream written means exactly what the styled segments say.

Every case is a *description*: a list of (text, style description, is_control)
segments, a target console configuration (colour system, no_color, terminal,
legacy_windows), a way of handing the segments to the console and a *history*
(console configurations on which the very same Style objects were written
before).  The segments are printed through ``Console.print`` (so
``Console._render_buffer`` -> ``Style.render`` -> ``Color.get_ansi_codes`` run
for real), the bytes written to the file are decoded by the independent SGR /
OSC-8 model of vf/term.py and compared, character by character, with what the
descriptions say.

Parts
  S    every style of the style alphabet (x every way of constructing it) alone,
       followed by an unstyled character, on all 90 configurations
       {None,standard,256,truecolor,windows} x no_color{False,True,env}
       x terminal{True,False,auto} x legacy_windows, as Segments and as Text
  SH   history: the same objects first on a console with system A, then on one
       with system B (all 25 ordered pairs x 4 flag settings of B), as Segments
       (same Style object) and as Text with a style *definition* (object shared
       through the Style.parse cache / copied by Console.get_style)
  SH2  histories of length 2 (A1, A2, B: 125 triples; length 3 in thorough),
       first writers with NO_COLOR / no terminal / legacy windows, Style.render()
       with its default system as a history step, a Theme object shared by both
       consoles, and the derived objects copy() / update_link() / + that inherit
       the memo
  Q    every sequence of <=2 (quick) / <=3 (thorough, third position from a
       reduced menu) segments over a menu of (12 styles + unstyled) x 4 texts
       + 4 control segments (one of them styled), 40 configurations, three
       hand-over modes (cropped print, crop=False, Text)
  QH   the <=2 sequences again after a history (A, B)
  T    two overlapping spans + base style on a Text (styles made by
       Style.__add__), fresh and after a history
  D    styles of ONE buffer derived from one another: one base object (6 bases),
       optionally hashed / used as a dict key / written before, then 2 (quick) /
       3 (thorough) styles derived from it by update_link(other|None), copy(),
       without_color, + link style, + attribute style (paths of length 2 in
       thorough), optionally hashing every derived style; as Segments and as
       Text spans on {None,standard,truecolor} x no_color x legacy_windows.
       Finding keys get the prefix ``derived/`` when independently built equal
       styles are written correctly.
  F    target history: a console that follows sys.stdout / sys.stderr (no
       file=, no force_terminal) or owns a file, created while the stream is a
       tty-like or a plain fake; all histories of <=4 (quick) / <=5 (thorough)
       steps over {print styled+control segments, console.control()+bell(),
       swap the std stream to a tty-like fake, to a plain fake, console.file =
       tty-like fake, = plain fake}; after every step what reached the CURRENT
       target is judged with the clauses for that target and nothing may reach
       any other stream (prefix ``target-history/`` when a console created for
       that target is right). sys.stdout / sys.stderr are restored in finally.
  TH   threads (E3, vf/sched.py): two real threads, each printing its own styled
       segments on its OWN console, 7 harnesses (attributes vs colours, truecolor
       styles on a 256 and a standard console, the same Style object on two
       systems / on the same system, NO_COLOR+record vs colour, Text with style
       definitions through the Style.parse cache).  Fresh Style objects and
       cleared lru caches per execution.  Scheduling points: every executed line
       of rich.style, rich.color, rich.segment ("style"), for three harnesses
       also every line of rich.console and the bytecodes of _check_buffer /
       _render_buffer ("console").  All schedules with <=1 preemption (quick),
       <=2 for the Segment harnesses (thorough).  Each console's stream is judged
       like a sequential write, and so is a later single-threaded write of the
       same Style objects (keys threads/own-objects/..., threads/shared-objects/...,
       threads/memoised/...).  Every shard runs in a forked child.
  E    tri-state options x environment: Console(no_color in {None, False, True},
       force_terminal in {None, False, True}, color_system in {"auto", None,
       standard, 256, truecolor, windows}) x file.isatty() x _environ with
       NO_COLOR {absent, "", "1"} x TERM {absent, dumb, unknown, xterm,
       xterm-256color} x COLORTERM {absent, truecolor}: 6,480 consoles, Segments
       and Text.  Reference resolution: an explicit argument wins, None falls back
       to the environment; "auto" = no colour when not a terminal / dumb terminal,
       otherwise any ANSI system is accepted (prefix ``options/`` when a console
       given the resolved values explicitly is right).

Every family runs on the console-option product colour system x no_color x
terminal x legacy_windows x record (record=True only adds a copy of the buffer,
the stream must not change).

A failing case that has a history is re-executed with fresh objects; when the
fresh write is right the finding key gets the prefix ``history/`` (the defect is
in what the objects remember, not in what they emit).

Measured (machine shared with other jobs, load average 80-90 on 16 cores, so CPU
time is the meaningful number):
  quick    1,808,854 sequential cases + 3,988 schedules (x4 judged writes), ~500 CPU-s
  thorough 9,720,598 sequential cases (~2700 CPU-s) + ~110 k schedules (~1200 CPU-s)
"""
import io
import itertools

from ..par import Result, deadline_passed
from ..refstyle import ATTRS, RefStyle, canon_color
from ..term import ESC, decode, tokenize

ID = "C03"
LEVEL = "exploration"
ENGINE = "E1+E3"
CAP_S = {"quick": 600, "thorough": 2400}

SYSTEMS = [None, "standard", "256", "truecolor", "windows"]
LINK = "https://e.x/a?b=c"
LINK2 = "http://o.th/er"
NULLVIS = ((), None, None, None)

# ------------------------------------------------------------------ alphabets
# colour kinds: unset, default, standard (both ends of the normal and of the bright
# range: 0 7 | 8 15, plus 1 and 9), indexed (first, cube, grey ramp ends), truecolor
K_QUICK = [None, "default", "color(1)", "color(9)", "color(0)", "color(7)", "color(8)", "color(15)",
           "color(16)", "color(100)", "color(232)", "color(255)",
           "#000000", "#010203", "#ff8700", "#808080"]
K_MORE = ["color(4)", "color(12)", "color(17)", "color(231)", "color(244)", "color(196)",
          "#ffffff", "#ff0000", "#0000ff", "#7f7f7f", "#c0c0c0", "#123456", "#fe0101", "#00ff7f"]


def _sd(attrs=(), fg=None, bg=None, link=None):
    """style description: (((attr, bool), ...), fg spec, bg spec, link) -- plain data"""
    order = {a: i for i, a in enumerate(ATTRS)}
    return (tuple(sorted(((a, bool(v)) for a, v in attrs), key=lambda x: order[x[0]])), fg, bg, link)


def styles(tier):
    """The style alphabet, simplest first, without duplicates."""
    seen = set()
    out = []

    def add(sd):
        if sd not in seen:
            seen.add(sd)
            out.append(sd)

    add(_sd())
    for a in ATTRS:
        add(_sd([(a, True)]))
    for a in ATTRS:
        add(_sd([(a, False)]))
    K = K_QUICK if tier == "quick" else K_QUICK + K_MORE
    for c in K:
        add(_sd(fg=c))
    for c in K:
        add(_sd(bg=c))
    add(_sd(link=LINK))
    for a in ATTRS:
        add(_sd([(a, True)], link=LINK))
    for c in K:
        add(_sd(fg=c, link=LINK))
        add(_sd(bg=c, link=LINK))
    add(_sd([("bold", False)], link=LINK))
    add(_sd([("bold", True), ("underline", True)], fg="#ff8700", bg="color(100)", link=LINK))
    for a, b in itertools.combinations(ATTRS, 2):
        for va, vb in ((True, True), (True, False), (False, True)):
            add(_sd([(a, va), (b, vb)]))
    for fixed in ((), (("italic", True),)):
        for f in K:
            for b in K:
                add(_sd(fixed, fg=f, bg=b))
    if tier != "quick":
        for a, b, c in itertools.combinations(ATTRS, 3):
            for vals in ((True, True, True), (True, True, False), (True, False, True), (False, True, True)):
                add(_sd(zip((a, b, c), vals)))
        add(_sd([(a, True) for a in ATTRS]))
        add(_sd([(a, True) for a in ATTRS], fg="#ff8700", bg="color(9)", link=LINK))
        add(_sd([(a, False) for a in ATTRS]))
    return out


def colour_styles(tier):
    """sub-alphabet for the longer histories: one colour (fg or bg) of every kind, +- link/attr"""
    K = [k for k in (K_QUICK if tier == "quick" else K_QUICK + K_MORE) if k]
    out = []
    for c in K:
        out.append(_sd(fg=c))
        out.append(_sd(bg=c))
    out.append(_sd([("bold", True)], fg="#ff8700", bg="#010203"))
    out.append(_sd(fg="color(100)", link=LINK))
    out.append(_sd([("italic", True)], bg="#808080", link=LINK))
    out.append(_sd([("bold", True)]))
    return out


# sub-menu for sequences
M_STYLES = [
    _sd([("bold", True)]),
    _sd([("bold", False)]),
    _sd(fg="color(1)"),
    _sd(fg="color(9)"),
    _sd(bg="color(100)"),
    _sd(fg="#ff8700", bg="#010203"),
    _sd([("italic", True), ("underline", True)], fg="color(232)"),
    _sd(link=LINK),
    _sd([("bold", True)], fg="#010203", link=LINK),
    _sd(fg="default", bg="default"),
    _sd([("dim", True), ("strike", True)], bg="color(9)"),
    _sd([("reverse", True)], fg="#808080"),
]
M_TEXTS = ["x", "あ", "a\nb", ""]
M_CONTROLS = [("\x1b[2K", None), ("\r", None), ("\x07", None), ("\x1b[1A", M_STYLES[0])]


def seg_menu(small=False):
    menu = []
    texts = ["x", "a\nb"] if small else M_TEXTS
    for t in texts:
        menu.append((t, None, False))
    for sd in M_STYLES:
        for t in texts:
            menu.append((t, sd, False))
    for t, sd in (M_CONTROLS[:1] + M_CONTROLS[3:] if small else M_CONTROLS):
        menu.append((t, sd, True))
    return menu


def configs40(records=(False, True)):
    """colour system x no_color x terminal x legacy_windows x record (the console-option product)"""
    for system in SYSTEMS:
        for nc in (False, True):
            for term in (True, False):
                for legacy in (False, True):
                    for record in records:
                        yield (system, nc, term, legacy, record)


def configs90():
    for system in SYSTEMS:
        for nc in (False, True, "env"):
            for term in (True, False, None):
                for legacy in (False, True):
                    for record in (False, True):
                        yield (system, nc, term, legacy, record)


# (no_color, terminal, legacy_windows, record) of the second writer
B_FLAGS = [(False, True, False, False), (True, True, False, False), (False, False, False, False),
           (False, True, True, False), (False, True, False, True), (True, True, False, True)]


def how_options(sd):
    """ways of constructing the Style object of a description"""
    attrs, fg, bg, link = sd
    hows = ["ctor", "parse"]
    if not attrs and not link:
        hows.append("from_color")
    if attrs and (fg or bg or link):
        hows.append("add")
    if attrs or fg or bg:
        hows.append("color_obj")
    return hows


# ------------------------------------------------------------------ building real objects
def definition(sd):
    """style definition string of a description (documented syntax)"""
    attrs, fg, bg, link = sd
    words = [(a if v else "not " + a) for a, v in attrs]
    if fg:
        words.append(fg)
    if bg:
        words.append("on " + bg)
    if link:
        words.append("link " + link)
    return " ".join(words) or "none"


def build_style(sd, how="ctor"):
    from rich.style import Style
    from rich.color import Color
    attrs, fg, bg, link = sd
    if how == "ctor":
        return Style(color=fg, bgcolor=bg, link=link, **dict(attrs))
    if how == "color_obj":
        return Style(color=Color.parse(fg) if fg else None, bgcolor=Color.parse(bg) if bg else None,
                     link=link, **dict(attrs))
    if how == "parse":
        return Style.parse(definition(sd))
    if how == "from_color":
        return Style.from_color(Color.parse(fg) if fg else None, Color.parse(bg) if bg else None)
    if how == "add":
        return Style(**dict(attrs)) + Style(color=fg, bgcolor=bg, link=link)
    raise ValueError(how)


def make_console(cfg, theme=None):
    from rich.console import Console
    system, nc, term, legacy = cfg[:4]
    record = bool(cfg[4]) if len(cfg) > 4 else False
    environ = {}
    no_color = nc
    if nc == "env":
        environ = {"NO_COLOR": "1"}
        no_color = None
    return Console(file=io.StringIO(), width=cfg[5] if len(cfg) > 5 else 80, height=25, force_terminal=term, color_system=system,
                   no_color=no_color, legacy_windows=legacy, record=record, _environ=environ, theme=theme)


class _Segs:
    """renderable that yields the given Segments (public console protocol)"""

    def __init__(self, segs):
        self.segs = segs

    def __rich_console__(self, console, options):
        return iter(self.segs)


def _write(cfg, mode, segs, objs, spans=None):
    """prints the described segments on a fresh console; returns what reached the file"""
    from rich.segment import Segment
    from rich.text import Text
    console = make_console(cfg, objs.get("theme"))
    if mode in ("seg", "raw"):
        real = [Segment(t, None if sd is None else objs[sd], ctl) for t, sd, ctl in segs]
        console.print(_Segs(real), end="", crop=(mode == "seg"))
    elif mode == "text":
        parts = [t if sd is None else (t, definition(sd)) for t, sd, ctl in segs]
        console.print(Text.assemble(*parts, end=""), end="")
    elif mode == "theme":
        parts = [t if sd is None else (t, objs["names"][sd]) for t, sd, ctl in segs]
        console.print(Text.assemble(*parts, end=""), end="")
    elif mode == "spans":
        plain, base, sp = spans
        text = Text(plain, style=objs[base] if base is not None else "", end="")
        for start, end, sd in sp:
            text.stylize(objs[sd], start, end)
        console.print(text, end="")
    else:
        raise ValueError(mode)
    return console.file.getvalue()


# ------------------------------------------------------------------ reference
_SYS = {}


def _system(name):
    if not _SYS:
        from rich.color import ColorSystem
        _SYS.update({"standard": ColorSystem.STANDARD, "256": ColorSystem.EIGHT_BIT,
                     "truecolor": ColorSystem.TRUECOLOR, "windows": ColorSystem.WINDOWS})
    return _SYS[name]


def ref_of(sd):
    """RefStyle of a description, colours not yet converted (spec strings)"""
    if sd is None:
        return RefStyle()
    attrs, fg, bg, link = sd
    return RefStyle(dict(attrs), fg, bg, link)


def visible(ref, cfg):
    """what a terminal must show for RefStyle `ref` (colour fields = spec strings) under cfg"""
    from rich.color import Color
    system, nc, term, legacy = cfg[:4]
    if system is None:
        return NULLVIS

    def conv(spec):
        if spec is None or nc:
            return None
        c = canon_color(Color.parse(spec).downgrade(_system(system)))   # conversion itself: C18
        return None if c == ("default",) else c

    return (tuple(sorted(a for a, v in ref.attrs.items() if v)), conv(ref.color), conv(ref.bgcolor),
            None if legacy else ref.link)


def _kind(c):
    return "-" if c is None else c[0]


# ------------------------------------------------------------------ one case
def _crash_key(exc):
    import os
    import traceback
    tb = traceback.extract_tb(exc.__traceback__)
    where = "?"
    for fr in reversed(tb):
        if (os.sep + "rich" + os.sep) in fr.filename:
            where = "%s:%s" % (os.path.basename(fr.filename), fr.name)
            break
    return "crash/%s/%s" % (type(exc).__name__, where)


def _norm(case):
    """JSON form -> internal tuples"""
    def sd(x):
        if x is None:
            return None
        return (tuple((a, bool(v)) for a, v in x[0]), x[1], x[2], x[3])
    segs = [(s[0], sd(s[1]), bool(s[2])) for s in case.get("segs", [])]
    spans = None
    if case.get("spans"):
        plain, base, sp = case["spans"]
        spans = (plain, sd(base), [(a, b, sd(s)) for a, b, s in sp])
    hist = [(tuple(h) if not isinstance(h, str) else h) for h in case.get("hist", [])]
    return (case["mode"], segs, spans, hist, tuple(case["cfg"]), case.get("how", "ctor"),
            case.get("derive", "same"))


def _execute(mode, segs, spans, hist, cfg, how, derive):
    """-> file content of the final write. The same Style objects serve the whole history."""
    from rich.style import Style
    try:
        Style.parse.cache_clear()          # a case is a pure function of its description
    except AttributeError:
        pass
    sds = [sd for _, sd, _ in segs if sd is not None]
    if spans:
        sds += [spans[1]] if spans[1] is not None else []
        sds += [s for _, _, s in spans[2]]
    objs = {}
    for sd in sds:
        if sd not in objs:
            objs[sd] = build_style(sd, how)
    if mode == "theme":                    # one Theme object shared by every console of the case
        from rich.theme import Theme
        names = {sd: "c03.s%d" % i for i, sd in enumerate(objs)}
        objs = {"names": names, "theme": Theme({n: definition(sd) for sd, n in names.items()})}
    for h in hist:
        if h == "render":                  # Style.render with its default colour system (as Style.test / export do)
            for o in objs.values():
                if isinstance(o, Style):
                    o.render("x")
        else:
            _write(h, mode, segs, objs, spans)
    if mode == "theme":
        pass
    elif derive == "copy":
        objs = {sd: o.copy() for sd, o in objs.items()}
    elif derive == "relink":
        objs = {sd: o.update_link(LINK2) for sd, o in objs.items()}
    elif derive == "plus":
        plus = Style(overline=True)
        objs = {sd: o + plus for sd, o in objs.items()}
    return _write(cfg, mode, segs, objs, spans)


def _expected(mode, segs, spans, cfg, derive):
    """-> (cells [(char, visible, from_unstyled_source)], control tokens)"""
    def dv(ref):
        if derive == "relink":
            return RefStyle(ref.attrs, ref.color, ref.bgcolor, LINK2)
        if derive == "plus":
            return ref + RefStyle({"overline": True})
        return ref
    cells, controls = [], []
    term = cfg[2]
    if mode == "spans":
        plain, base, sp = spans
        for i, ch in enumerate(plain):
            ref = dv(ref_of(base))
            for start, end, sd in sp:           # later span wins where it specifies
                if start <= i < end:
                    ref = ref + dv(ref_of(sd))
            cells.append((ch, visible(ref, cfg), base is None and not any(a <= i < b for a, b, _ in sp)))
        return cells, controls
    for text, sd, ctl in segs:
        if ctl:
            if term:
                toks, rest = tokenize(text)
                controls.extend(toks)
                if rest:
                    controls.append(("incomplete", rest))
            continue
        vis = visible(dv(ref_of(sd)), cfg) if sd is not None else NULLVIS
        for ch in text:
            cells.append((ch, vis, sd is None))
    if len(cfg) > 5 and mode == "seg":
        # a narrow console crops every line of a print to its width (part K uses one-cell characters only):
        # the characters that remain keep their own style
        kept, col = [], 0
        for cell in cells:
            if cell[0] == "\n":
                col = 0
                kept.append(cell)
            elif col < cfg[5]:
                col += 1
                kept.append(cell)
        cells = kept
    return cells, controls


def judge(out, mode, segs, spans, cfg, derive="same"):
    """-> list of (key, detail); pure function of the written text and the description"""
    exp_cells, exp_controls = _expected(mode, segs, spans, cfg, derive)
    return judge_stream(out, cfg, exp_cells, exp_controls, sum(t.count(ESC) for t, _, ctl in segs if ctl))


def judge_stream(out, cfg, exp_cells, exp_controls, n_esc_control=0):
    """The oracle proper: `out` reached a target described by cfg; exp_cells = [(char, visible, unstyled source)],
    exp_controls = control tokens a terminal must receive, n_esc_control = ESC bytes inside control segments."""
    system, nc, term, legacy = cfg[:4]
    problems = []
    cells, controls, dec = decode(out)
    toks, _rest = tokenize(out)

    if system is None:
        bad = [t for t in toks if (t[0] == "csi" and t[2] == "m") or (t[0] == "osc" and t[1].startswith("8;"))]
        # ESC bytes of control segments are judged by the (non-)terminal clauses below, not here
        if bad or out.count(ESC) > n_esc_control:
            problems.append(("no-colour-system/escape-written",
                             "color_system=None but the file has %r" % (out,)))
    if nc:
        colour = [c for params in dec.sgr_params for c in params if 30 <= c <= 49 or 90 <= c <= 107]
        if colour:
            problems.append(("no-color/colour-parameter-written",
                             "NO_COLOR but SGR parameters %r were written: %r" % (colour, out)))
    if not term:
        if controls:
            problems.append(("non-terminal/control-written",
                             "not a terminal but control codes %r reached the file: %r" % (controls, out)))
    elif controls != exp_controls:
        problems.append(("terminal/control-changed",
                         "controls %r, segments say %r" % (controls, exp_controls)))
    if dec.unknown:
        problems.append(("stream/unknown-sequence", "undecodable %r in %r" % (dec.unknown, out)))

    got_chars = "".join(c for c, _ in cells)
    exp_chars = "".join(c for c, _, _ in exp_cells)
    if got_chars != exp_chars:
        problems.append(("chars/changed", "visible characters %r, segments say %r (file %r)" % (got_chars, exp_chars, out)))
    else:
        names = ("attrs", "fg", "bg", "link")
        seen = set()
        for (ch, got), (_, want, unstyled) in zip(cells, exp_cells):
            if ch == "\n" or got == want:
                continue            # the statement is about visible characters; a newline shows nothing
            if unstyled:
                key = "leak/style-on-unstyled-text"
            else:
                comp = [n for n, g, w in zip(names, got, want) if g != w][0]
                key = "style/" + comp
            if key not in seen:
                seen.add(key)
                problems.append((key, "char %r shows %r, its segment says %r (file %r)" % (ch, got, want, out)))
    if not dec.is_null():
        problems.append(("leak/style-open-at-end", "after the last segment the terminal state is %r (file %r)"
                         % (dec.visible(), out)))
    return problems


def _case_json(mode, segs, spans, hist, cfg, how, derive):
    def sdj(sd):
        return None if sd is None else [[list(a) for a in sd[0]], sd[1], sd[2], sd[3]]
    c = {"mode": mode, "cfg": list(cfg), "hist": [h if isinstance(h, str) else list(h) for h in hist]}
    if segs:
        c["segs"] = [[t, sdj(sd), ctl] for t, sd, ctl in segs]
    if spans:
        c["spans"] = [spans[0], sdj(spans[1]), [[a, b, sdj(s)] for a, b, s in spans[2]]]
    if how != "ctor":
        c["how"] = how
    if derive != "same":
        c["derive"] = derive
    return c


def run_case(mode, segs, spans, hist, cfg, how="ctor", derive="same"):
    """Executes and judges one case. -> (problems, signature, nontrivial)"""
    try:
        out = _execute(mode, segs, spans, hist, cfg, how, derive)
    except Exception as exc:           # noqa: BLE001 - any exception of the code under test is a finding
        return [(_crash_key(exc), "%s: %s" % (type(exc).__name__, exc))], ("crash",), True
    problems = judge(out, mode, segs, spans, cfg, derive)
    if problems and (hist or derive != "same"):
        # is the failure a property of the objects' history? judge the same write with fresh objects
        try:
            fresh = _execute(mode, segs, spans, [], cfg, how, "same" if derive == "copy" else derive)
            fresh_keys = {k for k, _ in judge(fresh, mode, segs, spans, cfg, derive)}
        except Exception:              # noqa: BLE001
            fresh_keys = set()
        renamed = []
        for k, d in problems:
            if k in fresh_keys:
                renamed.append((k, d))
            else:
                grp = "style/colour" if k in ("style/fg", "style/bg") else k
                what = [h if isinstance(h, str) else h[0] for h in hist]
                renamed.append(("history/" + grp,
                                "same Style objects written before with %r%s, now on %r: %s -- fresh objects are right"
                                % (what, "" if derive == "same" else " then derived by " + derive, cfg[0], d)))
        problems = renamed
    # outcome signature: configuration x what the oracle had to see
    exp_cells, exp_controls = _expected(mode, segs, spans, cfg, derive)
    styled = [v for _, v, _ in exp_cells if v != NULLVIS]
    first = styled[0] if styled else NULLVIS
    any_desc = any(sd is not None for _, sd, _ in segs) or bool(spans)
    n_ctl = sum(1 for _, _, c in segs if c)
    hs = tuple(h if isinstance(h, str) else h[0] for h in hist)
    sig = (mode, cfg[0], bool(cfg[1]), bool(cfg[2]), cfg[3], len(cfg) > 4 and bool(cfg[4]), hs if len(hs) < 2 else ("steps", len(hs)), derive,
           bool(first[0]), _kind(first[1]), _kind(first[2]), bool(first[3]), n_ctl > 0)
    nontrivial = bool(styled) or n_ctl > 0 or (any_desc and (cfg[0] is None or cfg[1]))
    return problems, sig, nontrivial


def _do(res, mode, segs, spans, hist, cfg, how="ctor", derive="same", sample=False):
    problems, sig, nontrivial = run_case(mode, segs, spans, hist, cfg, how, derive)
    res.evaluations += 1
    res.sig(sig, nontrivial=nontrivial)
    if problems or sample:
        cj = _case_json(mode, segs, spans, hist, cfg, how, derive)
        for key, detail in problems:
            res.violate(key, cj, detail)
        if sample:
            res.sample(cj)


# ------------------------------------------------------------------ enumerations
def _single(sd):
    return [("xあ", sd, False), ("z", None, False)]


def gen_S(tier):
    for sd in styles(tier):
        for how in how_options(sd):
            for cfg in configs90():
                yield ("seg", _single(sd), None, [], cfg, how, "same")
        for cfg in configs40():
            yield ("text", _single(sd), None, [], cfg, "ctor", "same")


def gen_SH(tier):
    for sd in styles(tier):
        for a in SYSTEMS:
            ha = (a, False, True, False)
            for b in SYSTEMS:
                for nc, term, legacy, record in B_FLAGS:
                    cfg = (b, nc, term, legacy, record)
                    yield ("seg", _single(sd), None, [ha], cfg, "ctor", "same")
                    yield ("text", _single(sd), None, [ha], cfg, "ctor", "same")


def gen_SH2(tier):
    real = [s for s in SYSTEMS if s]
    for sd in colour_styles(tier):
        segs = _single(sd)
        for a1 in SYSTEMS:
            for a2 in SYSTEMS:
                for b in SYSTEMS:
                    yield ("seg", segs, None, [(a1, False, True, False), (a2, False, True, False)],
                           (b, False, True, False), "ctor", "same")
        # first writer had NO_COLOR / was no terminal / was legacy windows
        for aflags in ((True, True, False), (False, False, False), (False, True, True), (False, True, False, True),
                       (True, True, False, True)):
            for a in real:
                for b in real:
                    yield ("seg", segs, None, [(a,) + aflags], (b, False, True, False), "ctor", "same")
        # Style.render() with its default system as a history step
        for b in SYSTEMS:
            yield ("seg", segs, None, ["render"], (b, False, True, False), "ctor", "same")
            for a in real:
                yield ("seg", segs, None, [(a, False, True, False), "render"], (b, False, True, False), "ctor", "same")
        # a Theme object shared by the two consoles (as the default theme is)
        for a in SYSTEMS:
            for b in SYSTEMS:
                yield ("theme", segs, None, [(a, False, True, False)], (b, False, True, False), "ctor", "same")
        # derived objects
        for derive in ("copy", "relink", "plus"):
            for a in real:
                for b in SYSTEMS:
                    for how in ("ctor", "parse"):
                        yield ("seg", segs, None, [(a, False, True, False)], (b, False, True, False), how, derive)
        if tier != "quick":
            for h in itertools.product(real, repeat=3):
                for b in real:
                    yield ("seg", segs, None, [(a, False, True, False) for a in h], (b, False, True, False),
                           "ctor", "same")


def _sequences(tier):
    menu = seg_menu()
    yield ()
    for m in menu:
        yield (m,)
    for p in itertools.product(menu, repeat=2):
        yield p
    if tier != "quick":
        for p in itertools.product(menu, menu, seg_menu(small=True)):
            yield p


def gen_Q(tier):
    for seq in _sequences(tier):
        seq = list(seq)
        has_ctl = any(c for _, _, c in seq)
        for cfg in configs40() if len(seq) <= 2 else configs40(records=(False,)):
            yield ("seg", seq, None, [], cfg, "ctor", "same")
        if len(seq) <= 2:
            for cfg in configs40():
                yield ("raw", seq, None, [], cfg, "ctor", "same")
        if not has_ctl and 1 <= len(seq) <= 2:
            for cfg in configs40():
                yield ("text", seq, None, [], cfg, "ctor", "same")


K_STYLES = [None, _sd([("bold", True)], fg="color(1)"), _sd([("underline", True)], bg="#ff8700", link=LINK)]
K_TEXTS = ["ab", "abc", "a\nbcd"]


def gen_K(tier):
    """lines longer than the console: Console.print crops them, the kept part of every segment keeps its style"""
    menu = [(t, sd, False) for t in K_TEXTS for sd in K_STYLES]
    for n in (1, 2, 3):
        for seq in itertools.product(menu, repeat=n):
            if n == 3 and (tier == "quick" and seq[1][0] != "ab"):
                continue
            for width in (1, 2, 3, 4, 5):
                for system, record in (("truecolor", False), ("standard", True)):
                    yield ("seg", list(seq), None, [], (system, False, True, False, record, width), "ctor", "same")


def gen_QH(tier):
    real = [s for s in SYSTEMS if s]
    menu = [m for m in seg_menu() if m[0] in ("x", "a\nb") or m[2]]
    for n in (1, 2):
        for seq in itertools.product(menu, repeat=n):
            seq = list(seq)
            if not any(sd is not None for _, sd, _ in seq):
                continue
            for a in real:
                for b in real:
                    if a != b:
                        yield ("seg", seq, None, [(a, False, True, False)], (b, False, True, False), "ctor", "same")
                        if not any(c for _, _, c in seq):
                            yield ("text", seq, None, [(a, False, True, False)], (b, False, True, False),
                                   "ctor", "same")


def gen_T(tier):
    bases = [None, M_STYLES[0], M_STYLES[5]]
    for base in bases:
        for s1 in M_STYLES:
            for s2 in M_STYLES:
                spans = ("vwxyz", base, [(1, 3, s1), (2, 4, s2)])
                for cfg in configs40():
                    yield ("spans", [], spans, [], cfg, "ctor", "same")
                for a in SYSTEMS[1:]:
                    for b in SYSTEMS[1:]:
                        if a != b:
                            yield ("spans", [], spans, [(a, False, True, False)], (b, False, True, False),
                                   "ctor", "same")



# ------------------------------------------------------------------ part D: styles of ONE buffer derived from one another
LINK3 = "ftp://th.ird/"
D_BASES = [
    _sd([("bold", True)], fg="color(1)", link=LINK),
    _sd(fg="#ff8700", link=LINK),
    _sd(link=LINK),
    _sd([("bold", True)], fg="color(1)"),
    _sd(fg="#ff8700", bg="color(100)"),
    _sd([("italic", True)]),
]
D_OPS = ["relink", "relink3", "unlink", "copy", "nocolor", "pluslink", "plusattr"]
D_PREPS = ["none", "hash", "dict", "written"]


def _d_apply(style, op):
    from rich.style import Style
    if op == "relink":
        return style.update_link(LINK2)
    if op == "relink3":
        return style.update_link(LINK3)
    if op == "unlink":
        return style.update_link(None)
    if op == "copy":
        return style.copy()
    if op == "nocolor":
        return style.without_color
    if op == "pluslink":
        return style + Style(link=LINK2)
    if op == "plusattr":
        return style + Style(overline=True)
    raise ValueError(op)


def _d_ref(ref, op):
    if op == "relink":
        return RefStyle(ref.attrs, ref.color, ref.bgcolor, LINK2)
    if op == "relink3":
        return RefStyle(ref.attrs, ref.color, ref.bgcolor, LINK3)
    if op == "unlink":
        return RefStyle(ref.attrs, ref.color, ref.bgcolor, None)
    if op == "copy":
        return ref
    if op == "nocolor":
        return RefStyle(ref.attrs, None, None, ref.link)
    if op == "pluslink":
        return ref + RefStyle(link=LINK2)
    if op == "plusattr":
        return ref + RefStyle({"overline": True})
    raise ValueError(op)


def _d_paths(maxlen):
    yield ()
    for n in range(1, maxlen + 1):
        for p in itertools.product(D_OPS, repeat=n):
            yield p


def _d_write(cfg, mode, styles_):
    from rich.segment import Segment
    from rich.text import Text
    console = make_console(cfg)
    chars = "abcdefgh"[:len(styles_)]
    if mode == "seg":
        console.print(_Segs([Segment(ch, st) for ch, st in zip(chars, styles_)] + [Segment("z")]), end="")
    else:
        text = Text(chars + "z", end="")
        for i, st in enumerate(styles_):
            text.stylize(st, i, i + 1)
        console.print(text, end="")
    return console.file.getvalue()


def run_case_D(case):
    """One base Style object; optional hashing / use as dict key / earlier write; several styles derived from
    it (and from each other) by the public derivation API; all of them in ONE buffer."""
    from rich.segment import Segment
    from rich.style import Style
    mode, prep, hash_each = case["mode"], case["prep"], case["hash_each"]
    base_sd = _norm({"mode": "seg", "cfg": case["cfg"], "segs": [["", case["base"], False]]})[1][0][1]
    paths = [tuple(p) for p in case["paths"]]
    cfg = tuple(case["cfg"])
    refs = []
    for path in paths:
        r = ref_of(base_sd)
        for op in path:
            r = _d_ref(r, op)
        refs.append(r)
    exp_cells = [(ch, visible(r, cfg), False) for ch, r in zip("abcdefgh", refs)] + [("z", NULLVIS, True)]

    def derived(with_history):
        base = build_style(base_sd)
        if with_history:
            if prep == "hash":
                hash(base)
            elif prep == "dict":
                {base: 1}[base]
            elif prep == "written":
                c0 = make_console(("truecolor", True, True, False))
                c0.print(_Segs([Segment("p", base)]), end="")
        out = []
        for path in paths:
            st = base
            for op in path:
                st = _d_apply(st, op)
                if with_history and hash_each:
                    hash(st)
            out.append(st)
        return out

    def fresh():
        out = []
        for r in refs:   # the same styles built independently of one another from their descriptions
            out.append(Style(color=r.color, bgcolor=r.bgcolor, link=r.link, **r.attrs))
        return out

    try:
        problems = judge_stream(_d_write(cfg, mode, derived(True)), cfg, exp_cells, [])
    except Exception as exc:           # noqa: BLE001
        return [(_crash_key(exc), "%s: %s" % (type(exc).__name__, exc))], ("crash",), True
    if problems:
        try:
            fresh_keys = {k for k, _ in judge_stream(_d_write(cfg, mode, fresh()), cfg, exp_cells, [])}
        except Exception:              # noqa: BLE001
            fresh_keys = set()
        problems = [(k, d) if k in fresh_keys else
                    ("derived/" + k, "styles %r derived from one Style object (prep=%s, hash_each=%s) in one %s buffer: %s "
                     "-- independently built equal styles are right" % (paths, prep, hash_each, mode, d))
                    for k, d in problems]
    vis = [v for _, v, _ in exp_cells[:-1]]
    sig = ("D", mode, cfg[0], bool(cfg[1]), cfg[3], len(cfg) > 4 and bool(cfg[4]), prep, hash_each, len(paths), max(len(p) for p in paths),
           len(set(vis)), len({v[3] for v in vis}))
    return problems, sig, len(set(vis)) > 1 or any(v != NULLVIS for v in vis)


def gen_D(tier):
    cfgs = [(sy, nc, True, legacy, record) for record in (False, True) for sy in (None, "standard", "truecolor")
            for nc in (False, True) for legacy in (False, True)]
    p1 = list(_d_paths(1))
    combos = [list(c) for c in itertools.product(p1, repeat=2)]
    preps_long = D_PREPS
    if tier != "quick":
        combos += [list(c) for c in itertools.product(p1, repeat=3)]
    for base in D_BASES:
        bj = [[list(a) for a in base[0]], base[1], base[2], base[3]]
        for prep in preps_long:
            for hash_each in (False, True):
                for paths in combos:
                    for mode in ("seg", "spans"):
                        for cfg in (cfgs if len(paths) <= 2 else cfgs[:12]):      # record dimension on the pairs
                            yield {"part": "D", "mode": mode, "base": bj, "prep": prep, "hash_each": hash_each,
                                   "paths": [list(p) for p in paths], "cfg": list(cfg)}
        if tier != "quick":
            # derivations of derivations (paths of length 2), pairs
            p2 = list(_d_paths(2))
            for prep in ("none", "hash"):
                for hash_each in (False, True):
                    for a in p2:
                        for b in p2:
                            if len(a) < 2 and len(b) < 2:
                                continue
                            for mode in ("seg", "spans"):
                                for cfg in cfgs[4:12]:
                                    yield {"part": "D", "mode": mode, "base": bj, "prep": prep, "hash_each": hash_each,
                                           "paths": [list(a), list(b)], "cfg": list(cfg)}


# ------------------------------------------------------------------ part F: the target of a console changes
class _Fake(io.StringIO):
    """stream whose isatty() answer the harness controls"""

    def __init__(self, tty):
        io.StringIO.__init__(self)
        self.tty = tty

    def isatty(self):
        return self.tty


F_OPS = ["w", "c", "tty", "plain", "set-tty", "set-plain"]
F_SEGS = [("x", _sd([("bold", True)], fg="color(1)"), False), ("\x1b[2K", None, True), ("y", None, False),
          ("\x1b[1A", _sd([("bold", True)]), True)]


def _f_console(system, follow, stream, record=False):
    from rich.console import Console
    kw = dict(width=80, height=25, color_system=system, no_color=False, legacy_windows=False, record=record,
              _environ={})
    if follow == "file":
        return Console(file=stream, **kw)
    return Console(stderr=(follow == "stderr"), **kw)          # follows sys.stdout / sys.stderr


def _f_write(console, op):
    from rich.segment import Segment
    if op == "w":
        objs = {sd: build_style(sd) for _, sd, _ in F_SEGS if sd is not None}
        console.print(_Segs([Segment(t, None if sd is None else objs[sd], ctl) for t, sd, ctl in F_SEGS]), end="")
    else:
        console.control("\x1b[1A")
        console.bell()


def _f_judge(op, delta, system, tty):
    cfg = (system, False, tty, False)
    if op == "w":
        return judge(delta, "seg", F_SEGS, None, cfg)
    exp_controls = [("csi", "1", "A"), ("c0", "\x07")] if tty else []
    return judge_stream(delta, cfg, [], exp_controls, 1)


def run_case_F(case):
    """A console that follows sys.stdout / sys.stderr (no file=, no force_terminal) or owns a file; history over
    {write, control, swap the followed std stream to a tty-like / plain fake, assign console.file}. After every
    step what reached the CURRENT target is judged with the clauses of that target; nothing may reach another."""
    import sys
    follow, init, system, ops = case["follow"], case["init"], case["system"], case["ops"]
    record = bool(case.get("record"))
    attr = "stderr" if follow == "stderr" else "stdout"
    saved = (sys.stdout, sys.stderr)
    problems = []
    streams = []

    def new(tty):
        f = _Fake(tty)
        streams.append(f)
        return f

    n_targets = 1
    try:
        try:
            std = new(init == "tty")
            setattr(sys, attr, std)
            console = _f_console(system, follow, std, record)
            explicit = std if follow == "file" else None
            for step, op in enumerate(ops):
                before = [len(f.getvalue()) for f in streams]
                if op in ("tty", "plain"):
                    std = new(op == "tty")
                    setattr(sys, attr, std)
                    before.append(0)
                    n_targets += explicit is None
                elif op in ("set-tty", "set-plain"):
                    explicit = new(op == "set-tty")
                    console.file = explicit
                    before.append(0)
                    n_targets += 1
                else:
                    _f_write(console, op)
                target = explicit if explicit is not None else std
                for f, b in zip(streams, before):
                    delta = f.getvalue()[b:]
                    if f is target and op in ("w", "c"):
                        found = _f_judge(op, delta, system, f.tty)
                        if found:
                            fc = _f_console(system, "file", _Fake(f.tty), record)
                            _f_write(fc, op)
                            fresh_keys = {k for k, _ in _f_judge(op, fc.file.getvalue(), system, f.tty)}
                            for k, d in found:
                                if k in fresh_keys:
                                    problems.append((k, d))
                                else:
                                    problems.append(("target-history/" + k,
                                                     "console following %s, created on a %s stream, after steps %r the target "
                                                     "is a %s: %s -- a console created for that target is right"
                                                     % (follow, init, ops[:step], "terminal" if f.tty else "non-terminal", d)))
                    elif delta:
                        problems.append(("target/written-to-another-stream",
                                         "step %d (%s) of %r wrote %r to a stream that is not the console's current target"
                                         % (step, op, ops, delta)))
                if problems:
                    break
        finally:
            sys.stdout, sys.stderr = saved
    except Exception as exc:           # noqa: BLE001
        return [(_crash_key(exc), "%s: %s" % (type(exc).__name__, exc))], ("crash",), True
    writes = [o for o in ops if o in ("w", "c")]
    sig = ("F", follow, init, system, record, len(ops), ops[-1] if ops else "-", min(n_targets, 3), len(writes))
    seen = {}
    out = []
    for k, d in problems:
        if k not in seen:
            seen[k] = 1
            out.append((k, d))
    return out, sig, bool(writes) and n_targets > 1


def gen_F(tier):
    maxlen = 4 if tier == "quick" else 5
    for follow in ("stdout", "stderr", "file"):
        for init in ("tty", "plain"):
            for system in (None, "truecolor"):
                for record in (False, True):
                    for n in range(1, maxlen + 1):
                        for ops in itertools.product(F_OPS, repeat=n):
                            if ops[-1] not in ("w", "c"):
                                continue            # a history that ends without a write shows nothing new
                            yield {"part": "F", "follow": follow, "init": init, "system": system, "record": record,
                                   "ops": list(ops)}



# ------------------------------------------------------------------ part E: tri-state options x environment
# Console(no_color=, force_terminal=, color_system=) are tri-state / symbolic: None (or "auto") means "ask the
# environment", anything else is an explicit request that wins over the environment.  The environment is the
# `_environ=` mapping (NO_COLOR, TERM, COLORTERM) and file.isatty().
E_SEGS = [("x", _sd([("bold", True)], fg="#ff8700"), False), ("y", _sd(bg="color(9)"), False),
          ("w", _sd([("italic", True)], fg="color(100)", link=LINK), False), ("\x1b[2K", None, True), ("z", None, False)]
E_NO_COLOR_ENV = [None, "", "1"]                       # NO_COLOR absent / present but empty / "1"
E_TERM = [None, "dumb", "unknown", "xterm", "xterm-256color"]
E_COLORTERM = [None, "truecolor"]
E_SYSTEMS = ["auto", None, "standard", "256", "truecolor", "windows"]


def _e_console(no_color, force_terminal, isatty, color_system, env):
    from rich.console import Console
    return Console(file=_Fake(isatty), width=80, height=25, force_terminal=force_terminal, color_system=color_system,
                   no_color=no_color, legacy_windows=False, _environ=dict(env))


def _e_print(console, mode, segs):
    from rich.segment import Segment
    from rich.text import Text
    if mode == "text":
        console.print(Text.assemble(*[t if sd is None else (t, definition(sd)) for t, sd, _ in segs], end=""), end="")
    else:
        objs = {sd: build_style(sd) for _, sd, _ in segs if sd is not None}
        console.print(_Segs([Segment(t, None if sd is None else objs[sd], ctl) for t, sd, ctl in segs]), end="")
    return console.file.getvalue()


def run_case_E(case):
    env = {k: v for k, v in case["env"].items() if v is not None}
    no_color, ft, isatty, cs, mode = case["no_color"], case["force_terminal"], case["isatty"], case["color_system"], case["mode"]
    # reference resolution: an explicit argument wins, None / "auto" falls back to the environment
    eff_nc = no_color if no_color is not None else ("NO_COLOR" in env)
    eff_term = ft if ft is not None else isatty
    dumb = eff_term and env.get("TERM", "").lower() in ("dumb", "unknown")
    if cs == "auto":
        # documented: no colour when not a terminal or on a dumb terminal; otherwise one of the ANSI systems
        # (which one the environment advertises is not part of the statement: any of the three is accepted)
        candidates = [None] if (not eff_term or dumb) else ["standard", "256", "truecolor"]
    else:
        candidates = [cs]
    # what a dumb terminal does with raw control segments is not stated: they are left out there
    segs = [s_ for s_ in E_SEGS if not (dumb and s_[2])]
    if mode == "text":
        segs = [s_ for s_ in segs if not s_[2]]
    try:
        out = _e_print(_e_console(no_color, ft, isatty, cs, env), mode, segs)
    except Exception as exc:           # noqa: BLE001
        return [(_crash_key(exc), "%s: %s" % (type(exc).__name__, exc))], ("crash",), True
    best = None
    for cand in candidates:
        found = judge(out, mode, segs, None, (cand, eff_nc, eff_term, False))
        if best is None or len(found) < len(best[1]):
            best = (cand, found)
        if not found:
            break
    problems = best[1]
    if problems:
        # the same write with the resolved values given explicitly and an empty environment
        try:
            ref_out = _e_print(_e_console(eff_nc, eff_term, isatty, best[0], {}), mode, segs)
            ref_keys = {k for k, _ in judge(ref_out, mode, segs, None, (best[0], eff_nc, eff_term, False))}
        except Exception:              # noqa: BLE001
            ref_keys = set()
        problems = [(k, d) if k in ref_keys else
                    ("options/" + ("style/colour" if k in ("style/fg", "style/bg") else k),
                     "Console(no_color=%r, force_terminal=%r, color_system=%r, file.isatty()=%r, _environ=%r) must behave "
                     "as no_color=%r, terminal=%r, colour system %s: %s -- a console given these values explicitly is right"
                     % (no_color, ft, cs, isatty, env, eff_nc, eff_term, "/".join(map(str, candidates)), d))
                    for k, d in problems]
    tclass = "dumb" if env.get("TERM", "").lower() in ("dumb", "unknown") else ("-" if "TERM" not in env else "x")
    sig = ("E", mode, no_color, "NO_COLOR" in env, ft, isatty, tclass,
           cs if cs in ("auto", None) else "explicit")
    return problems, sig, True


def gen_E(tier):
    for mode in ("seg", "text"):
        for no_color in (None, False, True):
            for nce in E_NO_COLOR_ENV:
                for ft in (None, False, True):
                    for isatty in (False, True):
                        for term in E_TERM:
                            for ct in E_COLORTERM:
                                for cs in E_SYSTEMS:
                                    yield {"part": "E", "mode": mode, "no_color": no_color, "force_terminal": ft,
                                           "isatty": isatty, "color_system": cs,
                                           "env": {"NO_COLOR": nce, "TERM": term, "COLORTERM": ct}}

DICT_RUNNERS = {"D": run_case_D, "F": run_case_F, "E": run_case_E}

# ------------------------------------------------------------------ part TH: two threads, two consoles (E3, vf/sched.py)
# Each thread prints its own styled segments on its OWN console; the Style objects are fresh per execution
# (cold Style._ansi memo), every lru cache of rich.style / rich.color / rich.palette is cleared.  Scheduling
# points: every executed line of rich.style, rich.color and rich.segment ("style" granularity) and
# additionally every line of rich.console with the bytecodes of Console._check_buffer/_render_buffer
# ("console" granularity).  All executions with <= bound preemptions are run.  Oracle: each console's
# stream is judged exactly like the sequential case, and so is a later single-threaded print of the
# same Style objects (a wrong string must not have been memoised).
_TA = _sd([("bold", True)], fg="color(1)")
_TB = _sd([("italic", True), ("underline", True)])
_TC = _sd([("bold", True)], fg="#ff8700", bg="#010203")
_TD = _sd([("italic", True)], fg="#808080", bg="color(100)")
_TE = _sd([("strike", True)], fg="#ff8700", link=LINK)
TH_HARNESS = {
    # id: (segments A, cfg A, segments B, cfg B, Style objects shared between the threads, hand-over mode)
    "attrs-vs-colour": ([("x", _TA, False), ("z", None, False)], ("truecolor", False, True, False),
                        [("y", _TB, False), ("z", None, False)], ("truecolor", False, True, False), False, "seg"),
    "downgrade-256-vs-standard": ([("x", _TC, False), ("w", _TB, False), ("z", None, False)], ("256", False, True, False),
                                  [("y", _TD, False), ("v", _TA, False), ("z", None, False)],
                                  ("standard", False, True, False), False, "seg"),
    "same-style-two-systems": ([("x", _TC, False), ("z", None, False)], ("truecolor", False, True, False),
                               [("y", _TC, False), ("z", None, False)], ("standard", False, True, False), True, "seg"),
    "same-style-same-system": ([("x", _TC, False), ("z", None, False)], ("256", False, True, False),
                               [("y", _TC, False), ("z", None, False)], ("256", False, True, False), True, "seg"),
    "no-color-record-vs-colour": ([("x", _TE, False), ("z", None, False)], ("truecolor", True, True, False, True),
                                  [("y", _TD, False), ("z", None, False)], ("windows", False, True, False), False, "seg"),
    "text-definitions": ([("x", _TC, False), ("z", None, False)], ("256", False, True, False),
                         [("y", _TD, False), ("z", None, False)], ("standard", False, True, False), False, "text"),
    "text-same-definition": ([("x", _TE, False), ("z", None, False)], ("256", False, True, False),
                             [("y", _TE, False), ("z", None, False)], ("truecolor", False, True, True), False, "text"),
}
TH_ORDER = ("attrs-vs-colour", "downgrade-256-vs-standard", "same-style-two-systems", "same-style-same-system",
            "no-color-record-vs-colour", "text-definitions", "text-same-definition")
TH_STOP_AFTER_VIOLATIONS = 8


def _th_plan(tier):
    """(harness, granularity, bound, number of shards)"""
    out = []
    for hid in TH_ORDER:
        out.append((hid, "style", 1, 1))
        if hid in ("attrs-vs-colour", "same-style-two-systems", "no-color-record-vs-colour"):
            out.append((hid, "console", 1, 1))
    if tier != "quick":
        # bound 2: 13-30 k schedules per Segment harness (150-400 CPU-s); the Text harnesses have ~520 points
        # per execution (~100 k schedules at bound 2, ~1500 CPU-s each) and stay at bound 1
        for hid in TH_ORDER:
            if TH_HARNESS[hid][5] == "seg":
                out.append((hid, "style", 2, 8))
    return out


def _th_setup(gran):
    """Called in a forked child only: installs the scheduler and chooses the scheduling points."""
    import sys
    import rich.color
    import rich.console
    import rich.segment
    import rich.style
    from .. import sched
    sched.install()
    mon = sys.monitoring
    for name in sched.WHITELIST:              # live / progress / file_proxy never run here; console only on request
        mod = sys.modules[name]
        for co in sched._code_objects(mod):
            if not (gran == "console" and name == "rich.console"):
                mon.set_local_events(sched.TOOL, co, 0)
    for mod in (rich.style, rich.color, rich.segment):
        for co in sched._code_objects(mod):
            mon.set_local_events(sched.TOOL, co, mon.events.LINE)
    sched.SKIP_CODES = frozenset()


def _th_clear_caches():
    import rich.color
    import rich.palette
    import rich.style
    for mod in (rich.style, rich.color, rich.palette):
        for obj in list(vars(mod).values()):
            if isinstance(obj, type) and obj.__module__ == mod.__name__:
                for v in vars(obj).values():
                    f = getattr(v, "__func__", v)
                    if hasattr(f, "cache_clear"):
                        f.cache_clear()


def _th_make(hid):
    segs_a, cfg_a, segs_b, cfg_b, shared, mode = TH_HARNESS[hid]

    def make(s):
        from rich.segment import Segment
        from rich.text import Text
        _th_clear_caches()
        objs_a = {sd: build_style(sd) for _, sd, _ in segs_a if sd is not None}
        objs_b = objs_a if shared else {}
        for _, sd, _ in segs_b:
            if sd is not None and sd not in objs_b:
                objs_b[sd] = build_style(sd)
        cons = {"A": make_console(cfg_a), "B": make_console(cfg_b)}

        def renderable(segs, objs):
            if mode == "text":
                return Text.assemble(*[t if sd is None else (t, definition(sd)) for t, sd, _ in segs], end="")
            return _Segs([Segment(t, None if sd is None else objs[sd], ctl) for t, sd, ctl in segs])

        ra, rb = renderable(segs_a, objs_a), renderable(segs_b, objs_b)

        def A():
            cons["A"].print(ra, end="")

        def B():
            cons["B"].print(rb, end="")

        def finish():
            later = {}
            for tid, segs, objs, cfg in (("A", segs_a, objs_a, cfg_a), ("B", segs_b, objs_b, cfg_b)):
                try:
                    c = make_console(cfg)
                    c.print(renderable(segs, objs), end="")
                    later[tid] = c.file.getvalue()
                except Exception as e:          # noqa: BLE001
                    later[tid] = e
            return {"out": {t: c.file.getvalue() for t, c in cons.items()}, "later": later}
        return {"A": A, "B": B}, finish
    return make


def _th_judge(hid, s, obs):
    """-> (signature, [(key, detail)])"""
    segs_a, cfg_a, segs_b, cfg_b, shared, mode = TH_HARNESS[hid]
    vio = []
    if s.problem:
        vio.append(("threads/%s" % s.problem.split(":")[0], s.problem))
    for tid, e in s.errors:
        vio.append(("threads/exception/%s" % type(e).__name__, "thread %s raised %r" % (tid, e)))
    jm = "text" if mode == "text" else "seg"
    own = "shared-objects" if shared else "own-objects"      # whose state can be raced: the objects' or the classes'

    def grp(k):
        return own + "/" + ("style/colour" if k in ("style/fg", "style/bg") else k)
    for tid, segs, cfg in (("A", segs_a, cfg_a), ("B", segs_b, cfg_b)):
        if not s.problem and not any(t == tid for t, _ in s.errors):
            for k, d in judge(obs["out"][tid], jm, segs, None, cfg):
                vio.append(("threads/" + grp(k), "thread %s on its own %s console: %s" % (tid, cfg[0], d)))
        lat = obs["later"][tid]
        if isinstance(lat, Exception):
            vio.append(("threads/later-exception/%s" % type(lat).__name__, "printing %s's styles again: %r" % (tid, lat)))
        else:
            for k, d in judge(lat, jm, segs, None, cfg):
                vio.append(("threads/memoised/" + grp(k), "the same Style objects printed again by one thread after the two "
                            "threads finished (%s console): %s" % (cfg[0], d)))
    seen, out = set(), []
    for k, d in vio:
        if k not in seen:
            seen.add(k)
            out.append((k, d))
    dev = s.deviations_before(len(s.choices))
    return ("TH", hid, min(dev, 3), len(s.choices) // 50, bool(out)), out


def _in_child(fn):
    """runs fn() in a forked child (the scheduler's monkey-patching and monitoring never touch the worker)"""
    import os
    import pickle
    import traceback
    from ..par import MachineryError
    r, w = os.pipe()
    pid = os.fork()
    if pid == 0:
        try:
            os.close(r)
            try:
                data = pickle.dumps(("ok", fn()))
            except BaseException:           # noqa: BLE001
                data = pickle.dumps(("err", traceback.format_exc()))
            with os.fdopen(w, "wb") as f:
                f.write(data)
        finally:
            os._exit(0)
    os.close(w)
    with os.fdopen(r, "rb") as f:
        data = f.read()
    os.waitpid(pid, 0)
    st, out = pickle.loads(data) if data else ("err", "child process died without an answer")
    if st != "ok":
        raise MachineryError("child failed: %s" % out)
    return out


def _th_explore(sh):
    """child side of one TH shard -> plain data"""
    from .. import sched
    hid, gran, bound = sh["h"], sh["gran"], sh["bound"]
    _th_setup(gran)
    recs = []
    bad = [0]

    def judge_exec(s, obs):
        sig, vio = _th_judge(hid, s, obs)
        ch = list(s.choices)
        while ch and ch[-1] == 0:
            ch.pop()
        if vio:
            # a counterexample must reproduce identically before it is reported
            s2, obs2 = sched.run_once(_th_make(hid), ch, "line", 0)
            _sig2, vio2 = _th_judge(hid, s2, obs2)
            if [k for k, _ in vio2] != [k for k, _ in vio]:
                raise RuntimeError("schedule not reproducible: %r then %r (choices %r)" % (vio, vio2, ch))
            bad[0] += 1
        recs.append((sig, vio, ch, len(s.choices)))

    st = sched.explore(_th_make(hid), bound, judge_exec, granularity="line", timeout_budget=0,
                       first_level=(sh["i"], sh["n"]),
                       stop=lambda: deadline_passed() or bad[0] >= TH_STOP_AFTER_VIOLATIONS)
    return {"recs": recs, "stats": st, "stopped_on_violations": bad[0] >= TH_STOP_AFTER_VIOLATIONS}


def _part_TH(sh, res):
    out = _in_child(lambda: _th_explore(sh))
    hid, gran, bound = sh["h"], sh["gran"], sh["bound"]
    for sig, vio, ch, ncp in out["recs"]:
        res.evaluations += 4                # two concurrent writes + two later writes, all judged
        res.sig(sig + (gran,), nontrivial=sig[2] > 0)
        res.counters["max_choice_points_per_schedule"] = max(res.counters.get("max_choice_points_per_schedule", 0), ncp)
        for key, detail in vio:
            res.violate(key, {"part": "TH", "h": hid, "gran": gran, "choices": ch}, detail)
    res.count("schedules", out["stats"]["executions"])
    res.count("cases_TH", 4 * len(out["recs"]))
    if out["stats"]["complete"]:
        if sh["i"] == 0:
            res.count("threads_complete:%s:%s:b%d" % (hid, gran, bound))
    elif out["stopped_on_violations"]:
        res.count("threads_stopped_after_counterexamples:%s:%s:b%d" % (hid, gran, bound))
    else:
        res.capped = True
    if sh["i"] == 0 and hid == TH_ORDER[0]:
        res.sample({"part": "TH", "harness": hid, "granularity": gran, "bound": bound}, limit=1)


def _replay_TH(case):
    def child():
        from .. import sched
        _th_setup(case.get("gran", "style"))
        s, obs = sched.run_once(_th_make(case["h"]), list(case["choices"]), "line", 0)
        return _th_judge(case["h"], s, obs)[1]
    return _in_child(child)


GENS = {"S": gen_S, "SH": gen_SH, "SH2": gen_SH2, "Q": gen_Q, "QH": gen_QH, "T": gen_T, "K": gen_K,
        "D": gen_D, "F": gen_F, "E": gen_E}


def plan(tier, seed):
    n = {"quick": {"S": 8, "SH": 10, "SH2": 4, "Q": 16, "QH": 4, "T": 2, "D": 4, "F": 2, "E": 2, "K": 2},
         "thorough": {"S": 24, "SH": 32, "SH2": 8, "Q": 96, "QH": 4, "T": 4, "D": 24, "F": 4, "E": 2, "K": 4}}[tier]
    shards = []
    # the thread shards first: they are the longest single shards
    for hid, gran, bound, k in _th_plan(tier):
        shards += [{"part": "TH", "h": hid, "gran": gran, "bound": bound, "i": i, "n": k} for i in range(k)]
    for part in ("S", "SH", "SH2", "Q", "QH", "T", "D", "F", "E", "K"):
        shards += [{"part": part, "i": i, "n": n[part]} for i in range(n[part])]
    return shards


def run_shard(sh, tier, seed):
    res = Result()
    if sh["part"] == "TH":
        _part_TH(sh, res)
        return res
    i, n = sh["i"], sh["n"]
    for idx, c in enumerate(GENS[sh["part"]](tier)):
        if idx % n != i:
            continue
        if idx % 256 == i and deadline_passed():
            res.capped = True
            break
        if isinstance(c, dict):
            problems, sig, nontrivial = DICT_RUNNERS[c["part"]](c)
            res.evaluations += 1
            res.sig(sig, nontrivial=nontrivial)
            for key, detail in problems:
                res.violate(key, c, detail)
            if idx % 50021 == 0:
                res.sample(c)
        else:
            _do(res, *c, sample=(idx % 50021 == 0))
    res.count("cases_" + sh["part"], res.evaluations)
    return res


def describe(tier, seed, res):
    ns = len(styles(tier))
    return {
        "rule": "Every case prints described segments through Console.print on a fresh console and decodes the file with "
                "the independent SGR/OSC-8 model. S: %d styles (null; 13 attributes x T/F; all attribute pairs x TT/TF/FT%s; "
                "%d colour kinds as fg, as bg, fg x bg with and without an attribute; with and without link) x every "
                "applicable construction (ctor, Color objects, parse, from_color, +) x 90 configurations, and as Text x 40. "
                "SH: each style x 25 ordered pairs (system A then system B on the same objects) x 4 flag settings of B x "
                "{Segment, Text-with-definition}. SH2: %d colour styles x 125 two-step histories, other first-writer flags, "
                "Style.render() as a step, copy/update_link/+ derivations%s. Q: all sequences of <=%d segments over "
                "(12 styles + unstyled) x 4 texts + 4 control segments%s x 40 configurations x {cropped print, crop=False "
                "(<=2), Text (<=2, no controls)}. QH: sequences <=2 over a reduced menu after a history (12 pairs A!=B). "
                "T: 3 bases x 12 x 12 overlapping span pairs x (40 configurations + 12 histories A!=B). "
                "D: 6 base styles x prep {none, hash, dict key, written} x hash-every-derived-style {no, yes} x all %s of "
                "derivations {same, update_link(u2), update_link(u3), update_link(None), copy, without_color, +link, +attr}%s "
                "from the one base object in one buffer x {Segments, Text spans} x 12 configurations. "
                "F: consoles following sys.stdout / sys.stderr / owning a file x created on tty-like|plain x system "
                "{None, truecolor} x all histories of <=%d steps over {print, control+bell, swap std stream to tty-like, to plain, "
                "console.file = tty-like, = plain} ending in a write; every step judged on the current target. "
                "E: Console(no_color None/False/True x force_terminal None/False/True x color_system auto/None/standard/256/"
                "truecolor/windows) x file.isatty() x _environ NO_COLOR {absent, '', '1'} x TERM {absent, dumb, unknown, xterm, "
                "xterm-256color} x COLORTERM {absent, truecolor} x {Segments, Text} = 6,480 consoles; explicit arguments win, "
                "None falls back to the environment. "
                "Every family runs on the console-option product colour system x no_color x terminal x legacy_windows x "
                "record (S 180 configurations, Q/T 80, SH second writer 6 flag settings incl. record and record+no_color, "
                "D and F x record; length-3 sequences and D triples without record). "
                "TH (E3, vf/sched.py): two real threads each printing its own styled segments on its OWN console; harnesses %s; "
                "fresh Style objects and cleared lru caches per execution; scheduling points = executed lines of rich.style, "
                "rich.color, rich.segment, for 3 harnesses also the lines of rich.console and the bytecodes of "
                "_check_buffer/_render_buffer; every schedule with <=%s preemptions; each stream and a later "
                "single-threaded write of the same Style objects judged by the sequential oracle; a counterexample is "
                "re-executed and must reproduce before it is reported; %d schedules run. Non-trivial = the oracle had to see a "
                "styled character or a control segment, or a negative clause met a non-null style; distinct = distinct "
                "(mode, configuration, history systems, derivation, expected attrs?/fg kind/bg kind/link?, controls?, long?) tuples."
                % (ns, "" if tier == "quick" else "; attribute triples", len(K_QUICK if tier == "quick" else K_QUICK + K_MORE),
                   len(colour_styles(tier)), "" if tier == "quick" else ", 256 three-step histories",
                   2 if tier == "quick" else 3, "" if tier == "quick" else " (third position: reduced menu of 28)",
                   "pairs" if tier == "quick" else "pairs and triples",
                   "" if tier == "quick" else " plus pairs of derivation paths of length <=2", 4 if tier == "quick" else 5,
                   ", ".join(TH_ORDER), "1" if tier == "quick" else "1 (all) / 2 (Segment harnesses)",
                   res.counters.get("schedules", 0)),
        "assumptions": [
            "Color.downgrade is the documented down-conversion (decided by C18); Color.parse of the 30 fixed colour specs is trusted",
            "'no control codes when not a terminal' is read as: no C0/CSI/OSC token other than SGR and OSC 8 reaches the file "
            "(colour is governed by color_system, not by is_terminal)",
            "'no escape sequence with colour disabled' is read as: no SGR, no OSC 8 and no ESC other than those of control "
            "segments, which a terminal must still receive",
            "the style of a newline character is not judged (it shows nothing); hyperlink ids are ignored",
            "all consoles 80 columns wide; texts are <=3 cells so nothing is cropped or wrapped",
            "part TH: lines of rich.text / rich.console (style granularity) are not scheduling points (partial-order "
            "reduction: the two consoles are separate objects; shared state is looked for in rich.style, rich.color, "
            "rich.segment and, at console granularity, rich.console); 2 threads, preemption bound as stated",
            "part E: with color_system='auto' on a (non-dumb) terminal any of standard/256/truecolor is accepted (which one "
            "COLORTERM/TERM select is not part of the statement); raw control segments on a dumb terminal are not judged",
            "part F: the target of a console without file= is whatever sys.stdout / sys.stderr is at the time of the write "
            "(documented behaviour of Console.file); the colour system is given explicitly, 'auto' detection is not explored",
        ],
        "coverage": {"styles": ns, "transitions": res.counters.get("cases_SH", 0) + res.counters.get("cases_SH2", 0)
                     + res.counters.get("cases_QH", 0) + res.counters.get("cases_D", 0) + res.counters.get("cases_F", 0),
                     "schedules": res.counters.get("schedules", 0),
                     "thread_harnesses_complete": sorted(k.split(":", 1)[1] for k in res.counters
                                                         if k.startswith("threads_complete:"))},
    }


def replay(case):
    if case.get("part") == "TH":
        return _replay_TH(case)
    if case.get("part") in DICT_RUNNERS:
        return [(k, d) for k, d in DICT_RUNNERS[case["part"]](case)[0]]
    mode, segs, spans, hist, cfg, how, derive = _norm(case)
    problems, _sig, _nt = run_case(mode, segs, spans, hist, cfg, how, derive)
    return [(k, d) for k, d in problems]


TECHNIQUE = ("bounded-exhaustive enumeration of styles, segment sequences, console configurations and write histories on "
             "the real Console.print path, judged by an independent SGR/OSC-8 stream decoder")
LEVEL_TEXT = ("Every style of the alphabet, every segment sequence within the length bound, every console configuration and "
              "every bounded history of colour systems seen by the same Style objects is written through the real console "
              "and the emitted bytes are interpreted by a decoder that shares no code with Rich. Exhaustive inside the "
              "stated bounds; nothing is sampled.")
LEVEL_NOTE = ("Trusted: CPython, vf/term.py decoder (selftested), Color.parse/Color.downgrade as the definition of the "
              "conversion (C18). Bounds: <=2 (quick) / <=3 (thorough) segments per write, histories of <=2 / <=3 earlier consoles, "
              "style alphabet as listed in the evidence rule; console width fixed at 80.")
