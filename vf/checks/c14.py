"""C14 -- No input makes the pipeline fail with an undocumented error.

Part "tok": every concatenation of <=4 (quick) / <=6 (thorough) tokens of a
syntax-directed alphabet is fed to the public entry point(s) of its family:

    color   Color.parse                                  -> returns | ColorParseError
    style   Style.parse                                  -> returns | StyleSyntaxError
            Console.get_style(s), get_style(s, default=) -> returns | MissingStyle
    markup  rich.markup.render                           -> returns | MarkupError
            Console.print(s)            (markup on)      -> returns | MarkupError
    text    Text(s), Console.print(s, markup=False) at widths 80, 2, 1 -> returns
    ansi    list(AnsiDecoder().decode(s)), then Console.print of every decoded line -> returns
            (alphabet: DESIGN's tokens + composite multi-parameter SGR forms "38;2" "48;2" "38;5"
            "48;5" "\\x1b[38;2;1;2", a complete run "\\x1b[1m", "\\x1b]8;;", and a control character
            that Text strips; markup has the stripped control character too -- a parse result
            that is only wrong when rendered is printed, not just built)

Part "tree": every renderable tree of a chain grammar (leaf | container(leaf)
| container(container(leaf)) in thorough; multi-child containers get fixed
siblings around the one variable child) with <=2 option deviations from the
constructor defaults, at EVERY width 1..24, 40, 200, through
list(Console.render(obj)) and Measurement.get(console, obj, width) -> returns.

Part "style": every style-valued option of every renderable of the grammar over attribute
COMBINATIONS (one option x {none, 13 attributes, 78 pairs, negations, colour/background/link};
two options of one renderable x 16 x 16) on utf-8, ascii-only and legacy-windows consoles, so that
code mapping a style to an index / character set sees every pair of attributes, also when the
two come from different levels (tree root x branch, table x column x row, frame x child).

Part "cols": 2- and 3-column tables, every assignment of one numeric option per column
(ratio 0/1/2, width 0/5, min_width 0, max_width 0, no_wrap, none) x table plain / expand /
width=20 / width=0 / min_width=0, rendered and measured.
Part "again": one object per tree rendered four times (24, 24, 6, 24 cells) -- a render must not
leave the object in a state the next render chokes on (span-carrying, justified Texts in every
container).

Anything else (any other exception type, or > 5 s in one call) is a violation
with finding key  <entry point>/<ExcType>/<file>:<function that raised>.

Measured (CPU seconds summed over shards; the build machine was heavily loaded):
quick      1,369,860 calls (12,035 trees x 26 widths x 2 + 744,040 token calls on 375,397 strings),
           649 outcome signatures, ~345 CPU-s (tok 72, tree 273; ~22 s wall on 16 idle cores)
thorough   86,968,011 calls (86,471 trees; 49.7 M token strings: color 17.9 M, style 5.2 M,
           markup 12.2 M, text 1.9 M, ansi 4.3 M at <=5 + 8.1 M of DESIGN's alphabet at <=6);
           ~11,000 CPU-s measured under load 40-130 (markup+ansi 3,864, trees 4,600, rest
           ~2,500; ~12 min on 16 idle cores)
Detection: 13 of 15 own source edits + 2 independently seeded ones reported (narrowed/dropped
except clauses in style.py, console.py, markup.py, ansi.py; removed width/emptiness guards in console.render,
table._measure_column, progress_bar, segment.get_shape, containers.justify; a widened regex in
color.py; a non-terminating chop_cells); the two silent ones (Measurement.get guard,
ratio_reduce guard) cannot raise for any tree of the grammar.
"""
import io
import itertools
import os
import re
import signal

from ..par import Result, deadline_passed, alarm, CaseTimeout
from .. import dyn

ID = "C14"
LEVEL = "exploration"
ENGINE = "E1"
CAP_S = {"quick": 900, "thorough": 1700}
HANG_S = 5.0
MAX_HANGS = 3      # a shard that met this many confirmed hangs stops (reported as capped): each costs >= 10 s

# ------------------------------------------------------------------ alphabets (DESIGN section 3, C14)
ALPHA = {
    "color": ["rgb(", ")", ",", " ", "1", "256", "#", "ff", "ff00ff", "color(", "red", "default",
              "²", "٣", "-", "x"],
    "style": ["bold", "b", "not", "on", "link", "red", "#ff0000", "rgb(,,)", "color(300)", "none",
              "x", " ", "NOT"],
    # + "\x08": a control character Text strips (\x07 \x08 \x0b \x0c \r are one class for the markup path)
    "markup": ["[", "]", "/", "\\", "b", "red", "=", " ", "\n", "#", "[/]", "[/b]", "[b]", "rgb(,,)", "\x08"],
    "text": ["a", "あ", "́", "\t", "\n", "\r", "\x00", "\x07", "\x1b", "[", "\U0010ffff"],
    # DESIGN's 14 tokens with the bare sub-mode digits "5"/"2" replaced by the composite multi-parameter
    # forms (so that a truncated or complete 8-bit / 24-bit colour is spelled in <=4 tokens), a complete
    # SGR run, the complete OSC 8 opener, and "\x08" = a control character Text strips inside a line
    # (\x0b/\x0c are line boundaries for str.splitlines like "\n"; "\r" is cut by the decoder itself).
    "ansi": ["\x1b[", "m", ";", "1", "38", "48", "38;5", "48;5", "38;2", "48;2", "\x1b[38;2;1;2", "\x1b[1m",
             "²", "\x1b]8;", "\x1b]8;;", "\x1b\\", "a", "\x08", "\r", "\n", "99999999999999999999"],
    # thorough only: DESIGN's original alphabet to its full length bound
    "ansi6": ["\x1b[", "m", ";", "1", "38", "5", "2", "²", "\x1b]8;", "\x1b\\", "a", "\r", "\n",
              "99999999999999999999"],
}
FAMILIES = ["color", "style", "markup", "text", "ansi"]
# entry points per family, in evidence order
ENTRY_POINTS = {
    "color": ["color.parse"],
    "style": ["style.parse", "get_style", "get_style.default"],
    "markup": ["markup.render", "print.markup"],
    "text": ["text", "print.plain"],
    "ansi": ["ansi.decode", "ansi.print"],
}


def _maxlen(tier, fam=None):
    if tier == "quick":
        return 4
    return 5 if fam == "ansi" else 6     # 21 tokens: 4.3 M strings at <=5; "ansi6" keeps DESIGN's <=6


def _families(tier):
    return FAMILIES if tier == "quick" else FAMILIES + ["ansi6"]


def _prefix_len(tier):
    return 1 if tier == "quick" else 2


# ------------------------------------------------------------------ consoles
class _NullFile(io.StringIO):
    """Accepts writes and forgets them (keeps the shards' memory flat)."""

    def write(self, s):
        return len(s)


_CON = {}


class _AsciiNullFile(_NullFile):
    encoding = "ascii"


def console(width, kind="utf8"):
    """kind: "utf8" | "ascii" (file encoding ascii -> options.ascii_only) | "legacy" (legacy_windows=True)"""
    con = _CON.get((width, kind))
    if con is None:
        from rich.console import Console
        con = Console(file=_AsciiNullFile() if kind == "ascii" else _NullFile(), width=width, height=25,
                      force_terminal=True, color_system="truecolor", legacy_windows=(kind == "legacy"),
                      _environ={})
        _CON[(width, kind)] = con
    return con


# ------------------------------------------------------------------ judging one call
def _where(exc):
    """basename:function of the innermost frame inside the rich package (the
    function that raised). An exception re-raised at a generator boundary
    (StopIteration -> RuntimeError) has no rich frame of its own: then the
    cause/context chain is followed. Falls back to the innermost frame of all."""
    first = None
    seen = 0
    inner = exc.__cause__ or exc.__context__
    if isinstance(exc, RuntimeError) and isinstance(inner, StopIteration):
        exc = inner          # PEP 479 wrapper: the StopIteration says where it happened
    while exc is not None and seen < 4:
        tb = exc.__traceback__
        last = last_rich = None
        while tb is not None:
            code = tb.tb_frame.f_code
            fn = code.co_filename
            last = (fn, code.co_name)
            if (os.sep + "rich" + os.sep) in fn and (os.sep + "vf" + os.sep) not in fn:
                last_rich = (fn, code.co_name)
            tb = tb.tb_next
        if last_rich:
            return "%s:%s" % (os.path.basename(last_rich[0]), last_rich[1])
        first = first or last
        exc = exc.__cause__ or exc.__context__
        seen += 1
    f = first or ("?", "?")
    return "%s:%s" % (os.path.basename(f[0]), f[1])


class _Timer:
    """par.alarm armed once per shard, re-armed per call (one syscall each way)."""

    def __enter__(self):
        self._al = alarm(HANG_S)
        self._al.__enter__()
        signal.setitimer(signal.ITIMER_REAL, 0)
        return self

    def __exit__(self, *a):
        return self._al.__exit__(*a)


def _confirm_hang(fn):
    """A wall-clock alarm can fire on a starved machine; the case counts as a
    hang only if it also burns HANG_S seconds of CPU time when run again."""
    def h(signum, frame):
        raise CaseTimeout()
    old = signal.signal(signal.SIGPROF, h)
    try:
        signal.setitimer(signal.ITIMER_PROF, HANG_S)
        try:
            fn()
        finally:
            signal.setitimer(signal.ITIMER_PROF, 0)
        return None
    except CaseTimeout as e:
        return _where(e)
    except Exception:
        return None
    finally:
        signal.signal(signal.SIGPROF, old)


_setitimer = signal.setitimer
_REAL = signal.ITIMER_REAL


def call(res, ep, fn, documented, case, what):
    """Runs fn() under the per-call alarm. -> ("ok", value) | ("doc", exc) | ("bad", key)"""
    res.evaluations += 1
    try:
        _setitimer(_REAL, HANG_S)
        try:
            out = fn()
        finally:
            _setitimer(_REAL, 0)
        return "ok", out
    except documented as e:
        return "doc", e
    except CaseTimeout:
        where = _confirm_hang(fn)
        if where is None:
            res.count("slow_calls_not_hangs")
            return "ok", None
        key = "%s/hang/%s" % (ep, where)
        res.count("hangs_confirmed")
        res.violate(key, dict(case, ep=ep), "%s: no result after %g s of CPU time" % (what, HANG_S))
        return "bad", key
    except Exception as e:
        key = "%s/%s/%s" % (ep, type(e).__name__, _where(e))
        res.violate(key, dict(case, ep=ep), "%s raised %s: %s" % (what, type(e).__name__, str(e)[:300]))
        return "bad", key


_QUOTED = re.compile(r"'.*'|\".*\"", re.S)
_DIGITS = re.compile(r"\d+")


def _msgclass(e):
    return _DIGITS.sub("N", _QUOTED.sub("", str(e)))[:40]


# ------------------------------------------------------------------ part "tok"
def check_string(fam, s, res):
    """All entry points of family `fam` on the string s."""
    case = {"part": "tok", "fam": fam, "s": s}
    if fam == "color":
        from rich.color import Color, ColorParseError
        st, v = call(res, "color.parse", lambda: Color.parse(s), ColorParseError, case, "Color.parse(%r)" % s)
        if st == "ok":
            res.sig(("color.parse", "ok", v.type.name if v is not None else "?"))
        elif st == "doc":
            res.sig(("color.parse", type(v).__name__, _msgclass(v)))
        else:
            res.sig(("color.parse", "VIOLATION", v))
    elif fam == "style":
        from rich.style import Style
        from rich.errors import StyleSyntaxError, MissingStyle
        con = console(80)
        for ep, fn, doc, what in (
                ("style.parse", lambda: Style.parse(s), StyleSyntaxError, "Style.parse(%r)"),
                ("get_style", lambda: con.get_style(s), MissingStyle, "Console.get_style(%r)"),
                ("get_style.default", lambda: con.get_style(s, default="none"), MissingStyle,
                 "Console.get_style(%r, default='none')")):
            st, v = call(res, ep, fn, doc, case, what % s)
            if st == "ok":
                if v is None:
                    res.sig((ep, "ok"), nontrivial=False)
                else:
                    shape = (v.color is not None, v.bgcolor is not None, bool(v.link), bool(v))
                    res.sig((ep, "ok") + shape, nontrivial=bool(v))
            elif st == "doc":
                res.sig((ep, type(v).__name__, _msgclass(v)))
            else:
                res.sig((ep, "VIOLATION", v))
    elif fam == "markup":
        from rich import markup
        from rich.errors import MarkupError
        con = console(80)
        st, v = call(res, "markup.render", lambda: markup.render(s), MarkupError, case, "markup.render(%r)" % s)
        if st == "ok":
            n = len(v.spans) if v is not None else 0
            res.sig(("markup.render", "ok", min(n, 3), v is not None and len(v.plain) != len(s)), nontrivial=bool(s))
        elif st == "doc":
            res.sig(("markup.render", type(v).__name__, _msgclass(v)))
        else:
            res.sig(("markup.render", "VIOLATION", v))
        st2, v2 = call(res, "print.markup", lambda: con.print(s), MarkupError, case, "Console.print(%r)" % s)
        if st2 == "ok":
            res.sig(("print.markup", "ok", st), nontrivial=bool(s))
        elif st2 == "doc":
            res.sig(("print.markup", type(v2).__name__, _msgclass(v2)))
        else:
            res.sig(("print.markup", "VIOLATION", v2))
    elif fam == "text":
        from rich.text import Text
        st, v = call(res, "text", lambda: Text(s), (), case, "Text(%r)" % s)
        if st == "ok":
            res.sig(("text", "ok", v is not None and len(v.plain) != len(s)), nontrivial=bool(s))
        else:
            res.sig(("text", "VIOLATION", v))
        for w in (80, 2, 1):
            con = console(w)
            st, v = call(res, "print.plain", lambda: con.print(s, markup=False), (), dict(case, w=w),
                         "Console(width=%d).print(%r, markup=False)" % (w, s))
            if st == "ok":
                res.sig(("print.plain", "ok", w), nontrivial=bool(s))
            else:
                res.sig(("print.plain", "VIOLATION", v))
    elif fam in ("ansi", "ansi6"):
        from rich.ansi import AnsiDecoder
        st, v = call(res, "ansi.decode", lambda: list(AnsiDecoder().decode(s)), (), case,
                     "list(AnsiDecoder().decode(%r))" % s)
        if st == "ok":
            v = v or []
            res.sig(("ansi.decode", "ok", min(len(v), 3), any(t.spans for t in v), any(t.plain for t in v)),
                    nontrivial=bool(s))
            if fam == "ansi6":      # decode only; printing is explored on the richer "ansi" alphabet
                return
            # errors in what the decoder built only surface when the Text is rendered
            con = console(80)

            def show():
                for line in v:
                    con.print(line)
            st2, v2 = call(res, "ansi.print", show, (), case,
                           "Console.print of every line of AnsiDecoder().decode(%r)" % s)
            if st2 == "ok":
                res.sig(("ansi.print", "ok", any(len(t.plain) != len(t) for t in v)), nontrivial=bool(v))
            else:
                res.sig(("ansi.print", "VIOLATION", v2))
        else:
            res.sig(("ansi.decode", "VIOLATION", v))
    else:
        raise ValueError(fam)


def _tok_strings(fam, prefix, maxlen):
    """All token sequences starting with `prefix` (token indices), lengths
    len(prefix)..maxlen; prefix None = all sequences shorter than the prefix length."""
    al = ALPHA[fam]
    if prefix is None:
        raise ValueError
    head = "".join(al[i] for i in prefix)
    for extra in range(0, maxlen - len(prefix) + 1):
        for tup in itertools.product(al, repeat=extra):
            yield len(prefix) + extra, head + "".join(tup)


def _tok_short(fam, plen):
    al = ALPHA[fam]
    for L in range(0, plen):
        for tup in itertools.product(al, repeat=L):
            yield L, "".join(tup)


def _part_tok(sh, tier, res):
    fam = sh["fam"]
    maxlen = _maxlen(tier, fam)
    it = _tok_short(fam, sh["plen"]) if sh["prefix"] is None else _tok_strings(fam, sh["prefix"], maxlen)
    n = 0
    with _Timer():
        for L, s in it:
            n += 1
            if (not n & 255 and deadline_passed()) or res.counters.get("hangs_confirmed", 0) >= MAX_HANGS:
                res.capped = True
                break
            check_string(fam, s, res)
            if n % 20011 == 1:
                res.sample({"part": "tok", "fam": fam, "s": s}, limit=1)
    res.count("tok_strings_" + fam, n)
    res.count("max_tok_len_completed_" + fam, 0 if res.capped else maxlen)


# ------------------------------------------------------------------ part "tree": descriptions
# A tree is a chain [[kind, variant, {axis: value}], ...], outermost first, leaf last.
WIDTHS = list(range(1, 25)) + [40, 200]

TEXTS_Q = ["ab cd", "あい", "a\nbb c", "", "abcdefgh"]
TEXTS_T = TEXTS_Q + ["a", "tab\tx", " lead", "ああああ", "éx", "aあ b"]
RULES_Q = ["", "ti"]
RULES_T = RULES_Q + ["あ", "a longer title"]

# option menus: axis -> (core values, extra values). Defaults are the constructor defaults
# (Align: "left", Styled: "bold", Bar(10, 2, 7), ProgressBar(100, 30)).
MENU = {
    "text": [("justify", ["center", "full"], ["left", "right"]),
             ("overflow", ["fold", "ellipsis"], ["crop"]),
             ("no_wrap", [True], [])],
    "rule": [("characters", ["あ"], ["=-"]), ("align", ["left"], ["right"])],
    "bar": [("width", [0, 1, 30], [5]),
            ("span", [[10, 7, 2], [10, 2.5, 2.6]], [[10, 0, 10], [1, 0.25, 0.75], [3, -1, 5]])],
    "pbar": [("width", [0, 1, 30], [5]), ("pulse", [True], []),
             ("completed", [150], [0, 100, -5, 33.3]), ("total", [0], [0.5, 7])],
    "group0": [],
    "panel": [("box", [], ["ASCII", "HEAVY"]), ("title", ["ti", "a long title here"], ["あ"]),
              ("title_align", [], ["left", "right"]), ("expand", [False], []),
              ("width", [0, 1, 2, 3, 30], [5]), ("padding", [0, [2, 5, 1, 0]], [[1, 2]])],
    "padding": [("pad", [1, [0, 30]], [[0, 2], [1, 0, 1, 3]]), ("expand", [False], [])],
    "align": [("align", ["center", "right"], []), ("pad", [False], []), ("width", [0, 1, 30], [3])],
    "constrain": [("width", [0, 1, 3, None], [10])],
    "styled": [("style", ["on red"], [])],
    "group": [("fit", [False], [])],
    "columns": [("equal", [True], []), ("expand", [True], []), ("column_first", [True], []),
                ("right_to_left", [True], []), ("align", ["center"], ["left", "right"]),
                ("padding", [0, [0, 3]], [[1, 2]]), ("width", [1, 30], [3, 10]), ("title", ["ti"], [])],
    "tree": [("expanded_root", [False], []), ("expanded_child", [], [False]),
             ("guide_style", ["bold"], ["underline2"])],
    "table": [("width", [1, 30], [5]), ("min_width", [40], [10]), ("expand", [True], []),
              ("box", [None], ["ASCII", "SIMPLE", "MINIMAL"]), ("show_header", [False], []),
              ("show_footer", [True], []), ("show_edge", [False], []), ("show_lines", [True], []),
              ("leading", [1], [2]), ("padding", [0], [[0, 3], [1, 1]]), ("collapse_padding", [True], []),
              ("pad_edge", [False], []), ("title", ["ti"], ["a long title here"]), ("caption", [], ["cap"])],
}
MENU["columns0"] = MENU["columns"]
MENU["table0"] = MENU["table"]
# options of the table column that holds the variable child / of one other column
COL_MENU = [("col.width", [1, 30], [5]), ("col.min_width", [30], [4]), ("col.max_width", [1], [3]),
            ("col.ratio", [1], [3]), ("col.no_wrap", [True], []), ("col.justify", [], ["right", "full"]),
            ("col.overflow", [], ["fold"])]
OCOL_MENU = [("ocol.width", [5], []), ("ocol.ratio", [], [2]), ("ocol.no_wrap", [], [True])]

VARIANTS = {
    "panel": [None], "padding": [None], "align": [None], "constrain": [None], "styled": [None],
    "group": ["Xt", "X", "tX"], "columns": ["Xtt", "X", "tXtt"], "tree": ["mixed", "flat", "chain"],
    "table": ["2x2", "1x0", "1x1", "2x1", "3x2", "auto"],
}
CONTAINERS = ["panel", "padding", "align", "constrain", "styled", "group", "columns", "tree", "table"]
HEAVY = ("columns", "tree", "group", "table")     # multi-child containers (several renders per case)


def menu(kind, variant, full):
    m = list(MENU[kind])
    if kind == "table":
        if variant != "auto":
            m += COL_MENU
        if variant in ("2x1", "2x2", "3x2"):
            m += OCOL_MENU
    return [(axis, core + (extra if full else [])) for axis, core, extra in m if core or (full and extra)]


def leaves(tier, small=False):
    if small:
        return [["text", "ab cd"], ["text", "あい"], ["rule", "ti"], ["pbar", None]]
    texts, rules = (TEXTS_Q, RULES_Q) if tier == "quick" else (TEXTS_T, RULES_T)
    out = [["text", t] for t in texts] + [["rule", r] for r in rules]
    out += [["bar", None], ["pbar", None], ["table0", None], ["columns0", None], ["group0", None]]
    return out


def vectors(slots, k=2):
    """All deviation sets of size <= k over slots [(node, axis, values)]; at most one value per (node, axis)."""
    yield ()
    for node, axis, values in slots:
        for v in values:
            yield ((node, axis, v),)
    if k >= 2:
        for (n1, a1, v1s), (n2, a2, v2s) in itertools.combinations(slots, 2):
            for v1 in v1s:
                for v2 in v2s:
                    yield ((n1, a1, v1), (n2, a2, v2))


def _depth2_plan(tier, kind):
    """-> (leaf list, container menu full?, leaf menu full?) for container(leaf) chains"""
    quick = tier == "quick"
    if kind not in HEAVY:
        return leaves(tier), True, not quick
    if quick:
        if kind == "table":
            return [["text", "ab cd"], ["text", "あい"]], False, False
        return leaves(tier, small=True), kind != "columns", False
    if kind == "table":
        return [["text", "ab cd"], ["text", "あい"], ["text", "a\nbb c"], ["rule", "ti"],
                ["pbar", None], ["bar", None]], True, False
    lv = [l for l in leaves(tier) if l[0] != "text" or l[1] in TEXTS_Q]
    return lv, True, kind != "columns"


def _chains(tier):
    """-> (nodes [[kind, variant]], per-node menu flag: True full, False core, None no deviations)"""
    # depth 1: every leaf alone, full menus
    for leaf in leaves(tier):
        yield [leaf], [True]
    # depth 2: container(leaf)
    for kind in CONTAINERS:
        lv, cfull, lfull = _depth2_plan(tier, kind)
        for variant in VARIANTS[kind]:
            for leaf in lv:
                yield [[kind, variant], leaf], [cfull, lfull]
    # single-child frame around each multi-child container in its first layout (a container that
    # hands a zero or negative width to a child that divides by it needs two containers to show)
    for k1 in CONTAINERS:
        if k1 not in HEAVY:
            for k2 in HEAVY:
                yield [[k1, None], [k2, VARIANTS[k2][0]], ["text", "ab cd"]], [True, None, None]
    # depth 3 (thorough): container(container(leaf)); first layout only, core menus, no leaf deviations
    if tier != "quick":
        for k1 in CONTAINERS:
            for k2 in CONTAINERS:
                for leaf in leaves(tier, small=True)[:3]:
                    yield [[k1, VARIANTS[k1][0]], [k2, VARIANTS[k2][0]], leaf], [False, False, None]


def trees(tier):
    for nodes, fulls in _chains(tier):
        slots = []
        for i, ((kind, variant), full) in enumerate(zip(nodes, fulls)):
            if full is None:
                continue
            for axis, values in menu(kind, variant, full):
                slots.append((i, axis, values))
        for vec in vectors(slots):
            chain = [[kind, variant, {}] for kind, variant in nodes]
            for node, axis, v in vec:
                chain[node][2][axis] = v
            yield chain


# ------------------------------------------------------------------ descriptions -> fresh objects
def _pad(p):
    return p if isinstance(p, int) else tuple(p)


def _sib(s="z z"):
    from rich.text import Text
    return Text(s)


def build(chain, i=0):
    kind, variant, dev = chain[i]
    g = dev.get

    def X():
        return build(chain, i + 1)

    if kind == "text":
        from rich.text import Text
        t = Text(variant, justify=g("justify"), overflow=g("overflow"), no_wrap=g("no_wrap"))
        if "span" in dev:                       # only used by part "again"
            t.stylize(dev["span"], 1, 4)
        return t
    if kind == "rule":
        from rich.rule import Rule
        return Rule(variant, characters=g("characters", "─"), align=g("align", "center"))
    if kind == "bar":
        from rich.bar import Bar
        size, begin, end = g("span", [10, 2, 7])
        return Bar(size, begin, end, width=g("width"))
    if kind == "pbar":
        from rich.progress_bar import ProgressBar
        return ProgressBar(total=g("total", 100), completed=g("completed", 30), width=g("width"),
                           pulse=g("pulse", False), animation_time=0.0)
    if kind == "group0":
        from rich.console import RenderGroup
        return RenderGroup()
    if kind == "panel":
        from rich.panel import Panel
        from rich import box
        return Panel(X(), getattr(box, g("box", "ROUNDED")), title=g("title"),
                     title_align=g("title_align", "center"), expand=g("expand", True), width=g("width"),
                     padding=_pad(g("padding", (0, 1))))
    if kind == "padding":
        from rich.padding import Padding
        return Padding(X(), _pad(g("pad", (0, 0, 0, 0))), expand=g("expand", True))
    if kind == "align":
        from rich.align import Align
        return Align(X(), g("align", "left"), pad=g("pad", True), width=g("width"))
    if kind == "constrain":
        from rich.constrain import Constrain
        return Constrain(X(), dev["width"] if "width" in dev else 80)
    if kind == "styled":
        from rich.styled import Styled
        return Styled(X(), g("style", "bold"))
    if kind == "group":
        from rich.console import RenderGroup
        kids = {"X": lambda: [X()], "Xt": lambda: [X(), _sib()], "tX": lambda: [_sib(), X()]}[variant]()
        return RenderGroup(*kids, fit=g("fit", True))
    if kind in ("columns", "columns0"):
        from rich.columns import Columns
        if kind == "columns0":
            kids = []
        else:
            kids = {"X": lambda: [X()], "Xtt": lambda: [X(), _sib("ab cd"), _sib("あい")],
                    "tXtt": lambda: [_sib("a"), X(), _sib("a\nbb c"), _sib("")]}[variant]()
        return Columns(kids, _pad(g("padding", (0, 1))), width=g("width"), expand=g("expand", False),
                       equal=g("equal", False), column_first=g("column_first", False),
                       right_to_left=g("right_to_left", False), align=g("align"), title=g("title"))
    if kind == "tree":
        from rich.tree import Tree
        kw = {"expanded": g("expanded_root", True)}
        if "guide_style" in dev:
            kw["guide_style"] = dev["guide_style"]
        if variant == "flat":
            root = Tree(X(), **kw)
            root.add(_sib("c1"))
            root.add(_sib("c2 c2"))
        elif variant == "chain":
            root = Tree(_sib("r"), **kw)
            root.add(X()).add(_sib("g"))
        else:
            root = Tree(_sib("r"), **kw)
            root.add(X())
            root.add(_sib("c2"), expanded=g("expanded_child", True)).add(_sib("g g"))
        return root
    if kind in ("table", "table0"):
        from rich.table import Table
        from rich import box
        kw = {k: v for k, v in dev.items() if "." not in k}
        if "box" in kw:
            kw["box"] = None if kw["box"] is None else getattr(box, kw["box"])
        if "padding" in kw:
            kw["padding"] = _pad(kw["padding"])
        t = Table(**kw)
        col = {k[4:]: v for k, v in dev.items() if k.startswith("col.")}
        ocol = {k[5:]: v for k, v in dev.items() if k.startswith("ocol.")}
        if kind == "table0":
            return t
        if variant == "1x0":
            t.add_column(X(), "f", **col)
        elif variant == "1x1":
            t.add_column("h", "f", **col)
            t.add_row(X())
        elif variant == "2x1":
            t.add_column("h", "f", **col)
            t.add_column("k", **ocol)
            t.add_row(X(), "bb")
        elif variant == "2x2":
            t.add_column("h", **ocol)
            t.add_column("k", "f", **col)
            t.add_row("a", X())
            t.add_row("ccc", "d")
        elif variant == "3x2":
            t.add_column("h", **ocol)
            t.add_column("k")
            t.add_column("m", "f", **col)
            t.add_row("a", "bb", X())
            t.add_row("ccc", "d", "ee ff")
        elif variant == "auto":
            t.add_row(X(), "bb")
        else:
            raise ValueError(variant)
        return t
    raise ValueError(kind)


# ------------------------------------------------------------------ part "tree": judging
def _wclass(w):
    return 1 if w == 1 else 4 if w <= 4 else 24 if w <= 24 else 200


def check_tree(chain, w, res):
    from rich.measure import Measurement
    case = {"part": "tree", "chain": chain, "w": w}
    con = console(w)
    holder = []

    def render():
        obj = build(chain)
        holder.append(obj)
        return list(con.render(obj, con.options))

    def measure():
        obj = holder[0] if holder else build(chain)
        return Measurement.get(con, obj, w)

    what = "tree %r at width %d" % (chain, w)
    st, segs = call(res, "render", render, (), case, "list(Console.render(...)) of " + what)
    st2, m = call(res, "measure", measure, (), case, "Measurement.get of " + what)
    kinds = (chain[0][0], chain[1][0] if len(chain) > 1 else "-", len(chain))
    if st == "ok" and st2 == "ok":
        segs = segs or []
        nl = 0
        ink = False
        for seg in segs:
            t = seg.text
            if t:
                ink = True
                nl += t.count("\n")
        res.sig(kinds + (_wclass(w), min(nl, 2), m is not None and m.minimum == m.maximum), nontrivial=ink)
    else:
        res.sig(kinds + (_wclass(w), "VIOLATION", segs if st == "bad" else m))


def _part_tree(sh, tier, res):
    n = 0
    with _Timer():
        for idx, chain in enumerate(trees(tier)):
            if idx % sh["n"] != sh["i"]:
                continue
            if deadline_passed() or res.counters.get("hangs_confirmed", 0) >= MAX_HANGS:
                res.capped = True
                break
            n += 1
            for w in WIDTHS:
                check_tree(chain, w, res)
            if idx % 1499 == 0:
                res.sample({"part": "tree", "chain": chain, "w": "all"}, limit=1)
    res.count("trees", n)


# ------------------------------------------------------------------ part "style": style-valued options
# Every style-valued option ("slot") of every renderable of the grammar is driven through attribute
# COMBINATIONS: (A) one slot at a time over STYLES_A = none, the 13 attributes, all 78 attribute pairs,
# the 13 negations, colour / background / link and every attribute together with all three;
# (B) two slots of one host at a time over STYLES_B x STYLES_B (13 attributes + colour + background +
# link) -- styles that are given in different places and combined by the renderer (tree levels, table /
# column / row, panel / border / child ...). Each case on a utf-8, an ascii-only and a legacy-windows
# console. Any code that turns a style into an index, a table key or a character set is exercised
# with every pair of attributes set at once.
ATTRS = ["bold", "dim", "italic", "underline", "blink", "blink2", "reverse", "conceal", "strike",
         "underline2", "frame", "encircle", "overline"]
STYLES_A = (["none"] + ATTRS + ["%s %s" % p for p in itertools.combinations(ATTRS, 2)]
            + ["not " + a for a in ATTRS] + ["red", "on blue", "link u", "red on blue link u"]
            + [a + " red on blue link u" for a in ATTRS])
STYLES_B = ATTRS + ["red", "on blue", "link u"]
CONSOLE_KINDS = ["utf8", "ascii", "legacy"]

# host -> slots. A slot left unassigned keeps the constructor default.
HOSTS = {
    "text": ["style", "span"],
    "rule": ["style", "title_style"],
    "pbar": ["style", "complete_style", "finished_style", "pulse_style"],
    "pbar.done": ["style", "complete_style", "finished_style", "pulse_style"],
    "pbar.pulse": ["style", "complete_style", "finished_style", "pulse_style"],
    "panel": ["style", "border_style", "child"],
    "padding": ["style", "child"],
    "align": ["style", "child"],
    "vcenter": ["style", "child"],
    "styled": ["style", "child"],
    "tree": ["root.style", "root.guide_style", "child.style", "child.guide_style",
             "grandchild.style", "grandchild.guide_style"],
    "table": ["style", "header_style", "footer_style", "border_style", "row_styles", "title_style",
              "caption_style", "col.style", "col.header_style", "col.footer_style", "row.style"],
}
# slot pairs of the table whose styles meet in one segment (quick); thorough takes all pairs
TABLE_PAIRS_Q = [("style", "col.style"), ("style", "row.style"), ("style", "row_styles"),
                 ("col.style", "row.style"), ("col.style", "row_styles"), ("row_styles", "row.style"),
                 ("header_style", "col.header_style"), ("footer_style", "col.footer_style"),
                 ("style", "border_style"), ("style", "title_style"), ("style", "caption_style"),
                 ("style", "header_style")]


def _style_widths(tier):
    return [2, 40] if tier == "quick" else [1, 2, 8, 40]


def build_host(host, a):
    """host name + {slot: style string} -> fresh renderable"""
    from rich.text import Text
    g = a.get

    def child():
        return Text("ab cd", style=g("child", ""))

    def kw(*names, **rename):
        out = {}
        for n in names:
            if n in a:
                out[rename.get(n, n)] = a[n]
        return out

    if host == "text":
        t = Text("ab cd ef", style=g("style", ""))
        if "span" in a:
            t.stylize(a["span"], 1, 4)
        return t
    if host == "rule":
        from rich.rule import Rule
        title = Text("ti", style=a["title_style"]) if "title_style" in a else "ti"
        return Rule(title, **kw("style"))
    if host.startswith("pbar"):
        from rich.progress_bar import ProgressBar
        return ProgressBar(total=100, completed=100 if host == "pbar.done" else 30, pulse=host == "pbar.pulse",
                           animation_time=0.0, **kw("style", "complete_style", "finished_style", "pulse_style"))
    if host == "panel":
        from rich.panel import Panel
        return Panel(child(), title="ti", **kw("style", "border_style"))
    if host == "padding":
        from rich.padding import Padding
        return Padding(child(), 1, **kw("style"))
    if host == "align":
        from rich.align import Align
        return Align(child(), "center", **kw("style"))
    if host == "vcenter":
        from rich.align import VerticalCenter
        return VerticalCenter(child(), **kw("style"))
    if host == "styled":
        from rich.styled import Styled
        return Styled(child(), g("style", "none"))
    if host == "tree":
        from rich.tree import Tree

        def sub(prefix):
            return {k[len(prefix):]: v for k, v in a.items() if k.startswith(prefix)}
        root = Tree(Text("r"), **sub("root."))
        c = root.add(Text("c"), **sub("child."))
        gc = c.add(Text("g"), **sub("grandchild."))
        gc.add(Text("x"))
        gc.add(Text("y"))
        c.add(Text("h"))
        root.add(Text("d"))
        return root
    if host == "table":
        from rich.table import Table
        tkw = kw("style", "header_style", "footer_style", "border_style", "title_style", "caption_style")
        if "row_styles" in a:
            tkw["row_styles"] = [a["row_styles"], "none"]
        t = Table(title="ti", caption="cap", show_footer=True, show_lines=True, **tkw)
        t.add_column("h", "f")
        t.add_column("k", "e", **{k[4:]: v for k, v in a.items() if k.startswith("col.")})
        t.add_row("a", "bb", **({"style": a["row.style"]} if "row.style" in a else {}))
        t.add_row("ccc", "d")
        return t
    raise ValueError(host)


def style_cases(tier):
    """-> (host, {slot: style}) ; deterministic order"""
    for host, slots in HOSTS.items():
        yield host, {}
        for slot in slots:
            for st in STYLES_A:
                yield host, {slot: st}
        if host == "table" and tier == "quick":
            pairs = TABLE_PAIRS_Q
        else:
            pairs = list(itertools.combinations(slots, 2))
        for s1, s2 in pairs:
            for a in STYLES_B:
                for b in STYLES_B:
                    yield host, {s1: a, s2: b}


def check_style(host, assign, kind, w, res):
    case = {"part": "style", "host": host, "assign": assign, "kind": kind, "w": w}
    con = console(w, kind)

    def render():
        return list(con.render(build_host(host, assign), con.options))

    st, segs = call(res, "render", render, (), case,
                    "list(Console.render(...)) of host %r with styles %r on a %s console of width %d"
                    % (host, assign, kind, w))
    slots = tuple(sorted(assign))
    if st == "ok":
        segs = segs or []
        styled = any(seg.style for seg in segs if seg.text.strip())
        res.sig(("style", host, slots, kind, styled), nontrivial=bool(assign) and any(seg.text for seg in segs))
    else:
        res.sig(("style", host, slots, kind, "VIOLATION", segs))


def _part_style(sh, tier, res):
    n = 0
    widths = _style_widths(tier)
    with _Timer():
        for idx, (host, assign) in enumerate(style_cases(tier)):
            if idx % sh["n"] != sh["i"]:
                continue
            if deadline_passed() or res.counters.get("hangs_confirmed", 0) >= MAX_HANGS:
                res.capped = True
                break
            n += 1
            for kind in CONSOLE_KINDS:
                for w in widths:
                    check_style(host, assign, kind, w, res)
            if idx % 2503 == 0:
                res.sample({"part": "style", "host": host, "assign": assign, "kind": "all", "w": "all"}, limit=1)
    res.count("style_cases", n)


# ------------------------------------------------------------------ part "cols": numeric column options incl. zero
# Every assignment of one numeric option per column, for 2 and 3 columns: none | ratio 0/1/2 | width 0/5 |
# min_width 0 | max_width 0 | no_wrap -- zero is a legal int wherever None and positive values are --
# x table mode (plain, expand=True, width=20, width=0, min_width=0) x widths, render + measure.
COL_OPTS = [None, ["ratio", 0], ["ratio", 1], ["ratio", 2], ["width", 0], ["width", 5], ["min_width", 0],
            ["max_width", 0], ["no_wrap", True]]
TABLE_MODES = [{}, {"expand": True}, {"width": 20}, {"width": 0}, {"min_width": 0}]
COLS_WIDTHS = [1, 6, 20, 40]


def cols_cases(tier):
    for ncols in (2, 3):
        for opts in itertools.product(range(len(COL_OPTS)), repeat=ncols):
            for mode in range(len(TABLE_MODES)):
                yield list(opts), mode


def build_cols(opts, mode):
    from rich.table import Table
    t = Table(**TABLE_MODES[mode])
    for i, o in enumerate(opts):
        kw = {}
        if COL_OPTS[o] is not None:
            kw[COL_OPTS[o][0]] = COL_OPTS[o][1]
        t.add_column("h%d" % i, **kw)
    t.add_row(*["ab cd", "あい", "x"][:len(opts)])
    t.add_row(*["e", "", "longer cell"][:len(opts)])
    return t


def check_cols(opts, mode, w, res):
    from rich.measure import Measurement
    case = {"part": "cols", "opts": opts, "mode": mode, "w": w}
    con = console(w)
    what = "Table(%r) with column options %r at width %d" % (TABLE_MODES[mode], [COL_OPTS[o] for o in opts], w)
    st, _ = call(res, "render", lambda: list(con.render(build_cols(opts, mode), con.options)), (), case,
                 "list(Console.render(...)) of " + what)
    st2, _ = call(res, "measure", lambda: Measurement.get(con, build_cols(opts, mode), w), (), case,
                  "Measurement.get of " + what)
    kinds = tuple(sorted(set(COL_OPTS[o][0] if COL_OPTS[o] else "-" for o in opts)))
    res.sig(("cols", kinds, mode, _wclass(w), st, st2))


def _part_cols(sh, tier, res):
    n = 0
    with _Timer():
        for idx, (opts, mode) in enumerate(cols_cases(tier)):
            if idx % sh["n"] != sh["i"]:
                continue
            if deadline_passed() or res.counters.get("hangs_confirmed", 0) >= MAX_HANGS:
                res.capped = True
                break
            n += 1
            for w in COLS_WIDTHS:
                check_cols(opts, mode, w, res)
            if idx % 997 == 0:
                res.sample({"part": "cols", "opts": opts, "mode": mode, "w": "all"}, limit=1)
    res.count("cols_cases", n)


# ------------------------------------------------------------------ part "words": paragraphs that wrap to several lines
# Every sequence of <=N words, each 1 or WLONG characters long (a wide character in one position), printed with
# markup off at the widths below with every justify method and overflow method: wrapped paragraphs of 1..N lines
# with every pattern of word counts per line (state carried from one wrapped line to the next shows here).
WORDS_N = {"quick": 12, "thorough": 15}
WORDS_LONG = 9
WORDS_WIDTHS = [20, 11]
WORDS_JUSTIFY = ["full", "center", "right", "left", None]
WORDS_OVERFLOW = [None, "ellipsis", "crop"]


def _words_text(bits):
    return " ".join(("w" if b == 0 else "abcdefg\u3042") if i % 3 else ("x" if b == 0 else "abcdefghi")
                    for i, b in enumerate(bits))


def check_words(bits, res):
    s = _words_text(bits)
    for w in WORDS_WIDTHS:
        con = console(w)
        for j in WORDS_JUSTIFY:
            for ov in (WORDS_OVERFLOW if j in ("full", None) else WORDS_OVERFLOW[:1]):
                case = {"part": "words", "bits": list(bits), "w": w, "justify": j, "overflow": ov}
                st, _ = call(res, "print.words", lambda: con.print(s, markup=False, justify=dyn(j), overflow=dyn(ov)), (), case,
                             "Console(width=%d).print(%r, markup=False, justify=%r, overflow=%r)" % (w, s, j, ov))
                res.sig(("words", min(len(bits), 4), sum(bits) > 1, w, j, ov, st))


def _part_words(sh, tier, res):
    n = 0
    with _Timer():
        for L in range(1, WORDS_N[tier] + 1):
            for idx, bits in enumerate(itertools.product((0, 1), repeat=L)):
                if idx % sh["n"] != sh["i"]:
                    continue
                if n % 16 == 0 and (deadline_passed() or res.counters.get("hangs_confirmed", 0) >= MAX_HANGS):
                    res.capped = True
                    res.count("words_cases", n)
                    return
                check_words(bits, res)
                n += 1
    res.count("words_cases", n)
    res.sample({"part": "words", "bits": [0] * 10 + [1, 1], "w": 20, "justify": "full", "overflow": None}, limit=1)


# ------------------------------------------------------------------ part "again": the same objects rendered repeatedly
# History dimension: ONE object per tree is rendered, measured, rendered again at the same width, at a
# narrower width and at the first width again; nothing may raise. Leaves are Texts with a styled span x
# justify x overflow x no_wrap (a render must not edit what the next render reads) plus the other leaves;
# alone and inside every container layout with <=1 option deviation (full menus).
AGAIN_WIDTHS = [24, 24, 6, 24]


def again_trees(tier):
    lv = []
    for justify in (None, "left", "center", "right", "full"):
        for overflow in (None, "ellipsis"):
            for no_wrap in (False, True):
                dev = {"span": "bold"}
                if justify:
                    dev["justify"] = justify
                if overflow:
                    dev["overflow"] = overflow
                if no_wrap:
                    dev["no_wrap"] = True
                lv.append(["text", "ab cd ef", dev])
    lv += [["text", "a\nbb c", {"span": "red", "justify": "right"}], ["rule", "ti", {}], ["bar", None, {}],
           ["pbar", None, {}], ["pbar", None, {"pulse": True}]]
    for leaf in lv:
        yield [leaf]
    for kind in CONTAINERS:
        for variant in VARIANTS[kind]:
            slots = [(0, axis, values) for axis, values in menu(kind, variant, True)]
            for vec in vectors(slots, 1):
                for leaf in lv:
                    yield [[kind, variant, {axis: v for _n, axis, v in vec}], leaf]


def check_again(chain, res):
    from rich.measure import Measurement
    holder = []
    kinds = (chain[0][0], len(chain))
    outcome = []
    for step, w in enumerate(AGAIN_WIDTHS):
        con = console(w)
        case = {"part": "again", "chain": chain, "step": step}

        def render():
            if not holder:
                holder.append(build(chain))
            return list(con.render(holder[0], con.options))
        what = "render #%d (widths %r, same object) of tree %r" % (step + 1, AGAIN_WIDTHS[:step + 1], chain)
        st, _ = call(res, "render" if step == 0 else "rerender", render, (), case, what)
        outcome.append(st)
        if step == 0 and holder:
            st, _ = call(res, "measure", lambda: Measurement.get(con, holder[0], w), (), case,
                         "Measurement.get after " + what)
            outcome.append(st)
        if not holder:
            break
    res.sig(("again", kinds, tuple(outcome)))


def _part_again(sh, tier, res):
    n = 0
    with _Timer():
        for idx, chain in enumerate(again_trees(tier)):
            if idx % sh["n"] != sh["i"]:
                continue
            if deadline_passed() or res.counters.get("hangs_confirmed", 0) >= MAX_HANGS:
                res.capped = True
                break
            n += 1
            check_again(chain, res)
            if idx % 1009 == 0:
                res.sample({"part": "again", "chain": chain}, limit=1)
    res.count("again_trees", n)


# ------------------------------------------------------------------ protocol
def plan(tier, seed):
    shards = []
    plen = _prefix_len(tier)
    # trees first: the expensive shards start early
    nt = 48 if tier == "quick" else 192
    shards += [{"part": "tree", "i": i, "n": nt} for i in range(nt)]
    shards += [{"part": "cols", "i": i, "n": 16} for i in range(16)]
    shards += [{"part": "again", "i": i, "n": 16} for i in range(16)]
    shards += [{"part": "words", "i": i, "n": 16} for i in range(16)]
    ns = 16 if tier == "quick" else 64
    shards += [{"part": "style", "i": i, "n": ns} for i in range(ns)]
    for fam in _families(tier):
        shards.append({"part": "tok", "fam": fam, "prefix": None, "plen": plen})
        for prefix in itertools.product(range(len(ALPHA[fam])), repeat=plen):
            shards.append({"part": "tok", "fam": fam, "prefix": list(prefix), "plen": plen})
    return shards


def run_shard(sh, tier, seed):
    import time
    res = Result()
    t0 = time.process_time()
    if sh["part"] == "tok":
        _part_tok(sh, tier, res)
    elif sh["part"] == "style":
        _part_style(sh, tier, res)
    elif sh["part"] == "cols":
        _part_cols(sh, tier, res)
    elif sh["part"] == "again":
        _part_again(sh, tier, res)
    elif sh["part"] == "words":
        _part_words(sh, tier, res)
    else:
        _part_tree(sh, tier, res)
    dt = time.process_time() - t0
    res.count("cpu_s_" + sh["part"], round(dt, 2))
    res.count("max_shard_cpu_s", round(dt, 2))
    return res


def describe(tier, seed, res):
    L = _maxlen(tier)
    c = res.counters
    return {
        "rule": "tok: every concatenation of <=%d tokens of the family alphabet (color %d, style %d, markup %d, text %d, "
                "ansi %d tokens%s) through every entry point of the family (Color.parse | Style.parse, Console.get_style "
                "with and without default | markup.render, Console.print | Text(), Console.print(markup=False) at widths "
                "80, 2, 1 | AnsiDecoder.decode, then Console.print of every decoded line). The markup and ansi alphabets "
                "contain a control character that Text strips; the ansi alphabet contains the multi-parameter SGR forms "
                "(38;5 48;5 38;2 48;2, a 24-bit prefix), a complete SGR run and the OSC 8 opener as single tokens. "
                "tree: every chain leaf | container(leaf)%s with <=2 option deviations "
                "from the constructor defaults (at most one value per option), each at every width 1..24, 40, 200 through "
                "list(Console.render()) and Measurement.get(); leaves Text (%d strings), Rule, Bar, ProgressBar, empty "
                "Table, empty Columns, empty RenderGroup; containers Panel, Padding, Align, Constrain, Styled, RenderGroup "
                "(3 sibling layouts), Columns (3), Tree (3 shapes), Table (2x2, 1x0, 1x1, 2x1, 3x2, auto columns; table + "
                "column options). This is the <=2-deviation slice of the option product, not the full product%s. "
                "style: every style-valued option of every renderable (Text style/span, Rule style/title, ProgressBar x4 in "
                "running/finished/pulse state, Panel style/border_style/child, Padding, Align, VerticalCenter, Styled, Tree "
                "style/guide_style on root, child and grandchild, Table style/header/footer/border/row_styles/title/caption + "
                "column style/header/footer + row style) is driven (A) one option at a time through %d styles: none, the 13 "
                "attributes, all 78 attribute pairs, the 13 negations, colour, background, link and every attribute with all "
                "three; (B) %s of one renderable at a time through the 16 x 16 product of {13 attributes, colour, "
                "background, link} (styles given in different places that the renderer combines: tree levels, table/column/"
                "row, frame/border/child); each on a utf-8, an ascii-only and a legacy-windows console at widths %s through "
                "list(Console.render()). "
                "cols: tables of 2 and 3 columns with every assignment of one numeric option per column from {none, ratio "
                "0/1/2, width 0/5, min_width 0, max_width 0, no_wrap} x table {plain, expand, width=20, width=0, min_width=0} "
                "at widths 1, 6, 20, 40, rendered and measured (zero is enumerated wherever None and positive ints are legal; "
                "the tree part also has width=0 for Panel, Align, Constrain, Bar, ProgressBar). "
                "again (history): ONE object per tree is rendered at widths 24, 24, 6, 24 (measured after the first render); "
                "trees = Text with a styled span x justify x overflow x no_wrap (20) + 5 other leaves, alone and inside every "
                "container layout with <=1 option deviation; the 2nd..4th render must not raise either. "
                "Outcome must be 'returns' or the documented exception of the entry point; a call is non-trivial when it "
                "raised the documented error, parsed something, or produced visible output; distinct = (entry point | "
                "container kinds, width class, outcome class) signatures."
                % (L, len(ALPHA["color"]), len(ALPHA["style"]), len(ALPHA["markup"]), len(ALPHA["text"]),
                   len(ALPHA["ansi"]),
                   "" if tier == "quick" else " up to 5 tokens, plus the 14-token alphabet of DESIGN.md up to 6 (decode only)",
                   "" if tier == "quick" else " | container(container(leaf)) (first layout, core option menu)",
                   len(TEXTS_Q if tier == "quick" else TEXTS_T),
                   "; quick uses the core option menu for Table and Columns" if tier == "quick" else "",
                   len(STYLES_A),
                   "every pair of options (Table: the 12 pairs whose styles meet in one segment)" if tier == "quick"
                   else "every pair of options",
                   _style_widths(tier)),
        "assumptions": [
            "documented errors: ColorParseError (Color.parse), StyleSyntaxError (Style.parse), MissingStyle "
            "(Console.get_style), MarkupError (markup.render, Console.print with markup); nothing for Text(), "
            "Console.print(markup=False), AnsiDecoder.decode, Console.render, Measurement.get",
            "valid options only: positive int widths, non-negative paddings, ratio >= 1, Bar size > 0; "
            "ProgressBar total=0 and completed outside 0..total are included because the renderer clamps them explicitly",
            "a hang is a call that exceeds 5 s wall AND, re-run, 5 s CPU time",
            "part tree: one object per (tree, width): rendered, then measured; part again: one object per tree, "
            "rendered four times",
            "0 is treated as a valid value of every int option that also accepts None and positive ints "
            "(widths, min/max widths, ratio); Bar(size=0) is not (it is the divisor the docs call the end of the bar)",
        ],
        "coverage": {"states": 0, "transitions": 0,
                     "trees": c.get("trees", 0), "widths_per_tree": len(WIDTHS),
                     "style_cases": c.get("style_cases", 0), "console_kinds": CONSOLE_KINDS,
                     "cols_cases": c.get("cols_cases", 0), "words_paragraphs": c.get("words_cases", 0),
                     "words_rule": "every sequence of <=%d words of 1 or 9 cells x widths %r x justify %r x overflow %r, Console.print(markup=False)" % (WORDS_N[tier], WORDS_WIDTHS, WORDS_JUSTIFY, WORDS_OVERFLOW), "again_trees": c.get("again_trees", 0),
                     "again_widths": AGAIN_WIDTHS,
                     "token_length_bound": L},
    }


def replay(case):
    res = Result()
    with _Timer():
        if case.get("part") == "tok":
            check_string(case["fam"], case["s"], res)
        elif case.get("part") == "cols":
            for w in (COLS_WIDTHS if case.get("w") in (None, "all") else [case["w"]]):
                check_cols(case["opts"], case["mode"], w, res)
        elif case.get("part") == "again":
            check_again(case["chain"], res)
        elif case.get("part") == "words":
            check_words(tuple(case["bits"]), res)
        elif case.get("part") == "style":
            kinds = CONSOLE_KINDS if case.get("kind") in (None, "all") else [case["kind"]]
            ws = _style_widths("thorough") if case.get("w") in (None, "all") else [case["w"]]
            for kind in kinds:
                for w in ws:
                    check_style(case["host"], case["assign"], kind, w, res)
        else:
            ws = WIDTHS if case.get("w") in (None, "all") else [case["w"]]
            for w in ws:
                check_tree(case["chain"], w, res)
    ep = case.get("ep")
    out = [(k, v[2]) for k, v in sorted(res.violations.items())]
    if ep:
        out = [(k, d) for k, d in out if k.startswith(ep + "/")] or out
    return out


TECHNIQUE = ("bounded-exhaustive enumeration on the real code: all token concatenations up to the length bound per parser "
             "alphabet, all renderable chains with <=2 option deviations x every width 1..24, 40, 200; oracle = the set of "
             "documented exception types per entry point plus a per-call 5 s alarm")
LEVEL_TEXT = ("Every token sequence within the bound is fed to the real parsers/decoder/print, every renderable tree of the "
              "grammar is rendered and measured at every listed width; each call must return or raise the documented error "
              "of its entry point. Exhaustive inside the stated bounds; nothing is sampled. The oracle needs no model: the "
              "judged observable is the exception type at the public entry point.")
LEVEL_NOTE = ("Trusted: CPython, the 40-line judge in vf/checks/c14.py. Bounds: <=4 (quick) / <=6 (thorough) tokens; style "
              "options: one option x 122 styles, two options x 16 x 16, 3 console kinds; trees of "
              "depth <=2 (quick) / <=3 (thorough) with <=2 option deviations; 26 widths.")
