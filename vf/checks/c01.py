"""C01 -- Rendered output never exceeds the available width.

Every renderable-tree description of the tier's families (vf/gen.py: all trees inside stated
depth / children / deviation bounds, nothing sampled) is built fresh and rendered with
`console.render(obj, console.options.update(width=W))` for EVERY W of the family's width set,
starting at the tree's structural minimum (vf/structmin.py, computed from the description alone).
The Segment stream is cut at "\\n"; the cells of every line (non-control segments, width table of
vf/width.py scanned by the harness, not rich.cells) must not exceed W.

width sets   full  : W in [struct_min, struct_min+8] u {20, 40, 80, 200}
             short : W in [struct_min, struct_min+5] u {20, 80}          (the largest thorough families)
             narrow: W in [struct_min, struct_min+3] u {20, 80}          (quick: D1x2, D2, CH4)
consoles     utf8 everywhere; ascii-only (file.encoding == "ascii") and legacy_windows additionally
             on the D1 and CH3 families at W in {struct_min, struct_min+1, 20}

Family WT crosses the fixed `width=` options of Panel / Align / Constrain (values below and ABOVE the available
width) with short / long titles and expand, all alternatives.  Family SH (shared-argument histories): ONE Text
object is handed to a host as an argument (Panel / Rule / Columns title, Table title / caption / header / footer)
or kid (panel, padding, align, constrain, styled, table cell, columns item, tree label) AND used again as the
host's sibling; for every mode of SHARED_MODES (one group render; the group rendered twice; host, text, other
rendered one after the other as three print calls would; the same after measuring the host; the host rendered
twice first) the concatenated output must have no line wider than W and must equal, render by render
(characters and styles), what the same events produce on equal but separate objects (keys
"shared/<slot>/overflow", "shared/<slot>/differs-from-copies").

Family CON (trees of 3 / 4 nodes, every shape, multi-line and panel labels) is rendered at the full width set on
all three consoles.  Part "bars": Bar / ProgressBar on a FINE grid relative to the cell grid -- for every W of
BAR_WIDTHS, size = 32 W (one unit = 1/32 cell), begin at every grid position, end - begin in BAR_SPANS (begin > end,
begin == end, slivers thinner than 1/8 cell, one cell, the rest), plus size 0 and an explicit width= option; for
ProgressBar total = 32 W, completed at every grid position and beyond both ends, pulse on / off, total 0; on the
utf8 and ascii-only consoles: no line wider than W (keys "bar/fine-grid", "pbar/fine-grid").

A violating (tree, W) is shrunk before it is keyed: the blame descends into a child that already
overflows when rendered alone, then every option that is not needed for the overflow is reset to
its default.  Finding key = "<kind of the blamed node>/<its remaining non-default options>" (plus
"~<kind>.<option>" for options remaining below it), e.g. "table/leading"; an exception escaping
render is "crash/<Type>/<file>:<function>".

Measured (default 16 workers):
    quick     60.6 k trees (incl. WT 672, CON 297 x 3 consoles, SH 68 x 5 modes) + 71 896 Bar / ProgressBar grid cases,
              651 384 evaluations, 214 outcome signatures (142 non-trivial), ~570 CPU-s (45 s wall on a nearly idle
              machine before the round-4 parts, which add ~15 CPU-s; 125 s wall at load average 55-68)
    thorough  493 k trees + WT 1 570 + CON + SH + bars, ~5 M renders, ~6 100 CPU-s (688 s wall under load, before WT / SH / CON / bars)
"""
import os
import traceback

from .. import gen
from ..par import Result, deadline_passed
from ..structmin import struct_min

ID = "C01"
LEVEL = "exploration"
ENGINE = "E1"
CAP_S = {"quick": 900, "thorough": 3600}
if os.environ.get("VF_CAP_S"):       # development aid: shorter wall cap (the run then reports exhaustive=false)
    CAP_S = {"quick": int(os.environ["VF_CAP_S"]), "thorough": int(os.environ["VF_CAP_S"])}
TECHNIQUE = ("bounded-exhaustive enumeration of renderable trees (depth / children / option-deviation bounds) x every "
             "width from the structural minimum, executed on the real renderers and judged by an independent "
             "line-width oracle")
LEVEL_TEXT = ("Every tree description inside the stated bounds (all container kinds, all leaf strings of the tier's menu, "
              "every choice of <=k non-default options) is rendered on the real code at every width of its width set and "
              "every produced line is measured with the harness's own width table. Exhaustive inside the bounds; nothing "
              "is sampled. Beyond the bounds (deeper trees, more deviations, other strings) nothing is claimed.")
LEVEL_NOTE = ("Trusted: CPython, the CELL_WIDTHS table data, vf/gen.py (description -> constructor call), vf/structmin.py "
              "(structural minimum from the description, errs on the large side), vf/width.py. Bounds: see coverage.rule.")

FULL = (8, (20, 40, 80, 200))
SHORT = (5, (20, 80))
NARROW = (3, (20, 80))
ALT_CONSOLE = (1, (20,))

SHORT_FAMILIES = {"quick": (),
                  "thorough": ("D1x2", "D1x3", "D2x1", "CH4", "CH4x1")}
NARROW_FAMILIES = {"quick": ("D1x2", "D2", "CH4"), "thorough": ()}
ALT_CONSOLE_FAMILIES = ("D1", "CH3")
TREES_PER_SHARD = {"quick": 250, "thorough": 2000}


def widths(sm, mode):
    span, extras = mode
    return sorted(set(range(sm, sm + span + 1)) | {w for w in extras if w > sm})


def wmode(tier, fam_name):
    if fam_name in NARROW_FAMILIES[tier]:
        return NARROW
    return SHORT if fam_name in SHORT_FAMILIES[tier] else FULL


# ------------------------------------------------------------------ one render, judged
def crash_key(e):
    tb = traceback.extract_tb(e.__traceback__)
    fr = tb[-1]
    for f in reversed(tb):
        if "/rich/" in f.filename:
            fr = f
            break
    return "crash/%s/%s:%s" % (type(e).__name__, fr.filename.split("/")[-1], fr.name)


def line_widths(d, W, ckind):
    """-> list of line widths; raises what render raises"""
    return gen.render_widths(gen.make_console(ckind), gen.build(d), W)


def overflow(d, W, ckind):
    """max line width if some line is wider than W, else 0 (a crash counts as no overflow here)"""
    try:
        ws = line_widths(d, W, ckind)
    except Exception:
        return 0
    m = max(ws) if ws else 0
    return m if m > W else 0


# ------------------------------------------------------------------ blame / minimisation (violations only)
def _cand_widths(d, upto):
    sm = struct_min(d)
    c = set(range(sm, min(upto, sm + 12) + 1)) | {w for w in (20, 40, 80, 200) if sm <= w <= upto}
    if upto >= sm:
        c.add(upto)
    return sorted(c)


def _first_overflow(d, upto, ckind):
    for W in _cand_widths(d, upto):
        if overflow(d, W, ckind):
            return W
    return None


def _present(d, path=()):
    """[(path, name)] of every deviation present in the tree"""
    kind, o, kids = d
    out = []
    for k, v in o.items():
        if k in gen.STRUCTURAL.get(kind, ()):
            if k == "cols":
                for i, c in enumerate(v):
                    out.extend((path, ("col", i, n)) for n in c)
            continue
        if k == "collapsed":
            out.extend((path, ("collapsed", i)) for i in v)
        else:
            out.append((path, k))
    for i, k in enumerate(kids):
        out.extend(_present(k, path + (i,)))
    return out


def _reset(d, path, name):
    kind, o, kids = d
    if path:
        nk = list(kids)
        nk[path[0]] = _reset(kids[path[0]], path[1:], name)
        return [kind, o, nk]
    no = dict(o)
    if isinstance(name, tuple) and name[0] == "col":
        cols = [dict(c) for c in o["cols"]]
        del cols[name[1]][name[2]]
        no["cols"] = cols
    elif isinstance(name, tuple) and name[0] == "collapsed":
        no["collapsed"] = [i for i in o["collapsed"] if i != name[1]]
        if not no["collapsed"]:
            del no["collapsed"]
    else:
        del no[name]
    return [kind, no, kids]


def _optname(name):
    if isinstance(name, tuple):
        return "col." + name[2] if name[0] == "col" else "collapsed"
    return name


def minimise(d, W, ckind):
    """(d, W) overflows.  -> (smaller description, its W, finding key)"""
    descended = True
    while descended:
        descended = False
        for k in d[2]:
            w2 = _first_overflow(k, W, ckind)
            if w2 is not None:
                d, W, descended = k, w2, True
                break
    changed = True
    while changed:
        changed = False
        for path, name in _present(d):
            d2 = _reset(d, path, name)
            w2 = _first_overflow(d2, max(W, struct_min(d2)), ckind)
            if w2 is not None:
                d, W, changed = d2, w2, True
                break
    own = sorted({_optname(n) for p, n in _present(d) if not p})
    below = set()
    for p, n in _present(d):
        if p:
            node = d
            for i in p:
                node = node[2][i]
            below.add("%s.%s" % (node[0], _optname(n)))
    key = "%s/%s" % (d[0], "+".join(own) or "default")
    if below:
        key += "~" + "+".join(sorted(below))
    return d, W, key


# ------------------------------------------------------------------ per tree
def check_case(d, W, ckind, res, sm=None):
    """Render one (tree, W, console kind) and judge it. Returns True when it passed."""
    sm = struct_min(d) if sm is None else sm
    case = {"tree": d, "W": W, "console": ckind}
    try:
        ws = line_widths(d, W, ckind)
    except Exception as e:  # noqa: BLE001 -- anything escaping render is a finding
        res.evaluations += 1
        res.violate(crash_key(e), case, "%s: %s (struct_min %d)" % (type(e).__name__, e, sm))
        res.sig(("crash", d[0]))
        return False
    res.evaluations += 1
    mx = max(ws) if ws else 0
    tight = mx == W
    res.sig((d[0], min(len(ws), 3), tight, bool(ws) and min(ws) < mx, W == sm, mx > W), nontrivial=tight or mx > W)
    if mx > W:
        md, mw, key = minimise(d, W, ckind)
        got = overflow(md, mw, ckind)
        res.violate(key, {"tree": md, "W": mw, "console": ckind},
                    "a line of %d cells at W=%d (struct_min %d); first seen on %s at W=%d"
                    % (got, mw, struct_min(md), _short(d), W))
        return False
    return True


def _short(d, limit=300):
    import json
    s = json.dumps(d, ensure_ascii=True)
    return s if len(s) <= limit else s[:limit] + "..."


# ------------------------------------------------------------------ shared-argument histories (family SH)
# an event is ("R" render | "M" measure, part) with part "G" = the whole group or an index into its kids
SHARED_MODES = {
    "group": [("R", "G")],
    "group-twice": [("R", "G"), ("R", "G")],
    "prints": [("R", 0), ("R", 1), ("R", 2)],
    "measure-then-prints": [("M", 0), ("R", 0), ("R", 1), ("R", 2)],
    "host-twice-then-prints": [("R", 0), ("R", 0), ("R", 1), ("R", 2)],
}


def _run_events(d, events, W, shared):
    """-> list with one output per "R" event: list of (char, style) incl. the newlines; control segments skipped.
    shared=True: the objects are built once with one bind dict; False: a fresh, unshared object per event."""
    from rich.measure import Measurement
    con = gen.make_console("utf8")
    opts = con.options.update(width=W)
    objs = {}
    if shared:
        bind = {}
        objs = {i: gen.build(k, bind) for i, k in enumerate(d[2])}
        from rich.console import RenderGroup
        objs["G"] = RenderGroup(*[objs[i] for i in range(len(d[2]))])
    outs = []
    for what, part in events:
        obj = objs[part] if shared else gen.build(d if part == "G" else d[2][part])
        if what == "M":
            Measurement.get(con, obj, W)
        else:
            outs.append([(ch, seg.style) for seg in con.render(obj, opts) if not seg.is_control for ch in seg.text])
    return outs


def check_shared_case(d, W, mode, res):
    slot = gen.share_slot(d).split("+")[0]
    case = {"tree": d, "W": W, "console": "utf8", "mode": mode}
    events = SHARED_MODES[mode]
    try:
        got = _run_events(d, events, W, True)
        want = _run_events(d, events, W, False)
    except Exception as e:  # noqa: BLE001
        res.evaluations += 1
        res.violate("shared/%s/%s" % (slot, crash_key(e)), case, "%s: %s" % (type(e).__name__, e))
        return
    res.evaluations += 1
    text = "".join(ch for out in got for ch, _ in out)
    lines = text.split("\n")
    mx = max(gen.sw(ln) for ln in lines)
    same = got == want
    res.sig(("shared", slot.split(".")[0], mode, mx == W, same), nontrivial=len(events) > 1)
    if mx > W:
        res.violate("shared/%s/overflow" % slot, case,
                    "mode %s at W=%d: a line of %d cells: %r" % (mode, W, mx, max(lines, key=gen.sw)))
    if not same:
        i = next(i for i, (a, b) in enumerate(zip(got, want)) if a != b)
        ga, wa = "".join(c for c, _ in got[i]), "".join(c for c, _ in want[i])
        res.violate("shared/%s/differs-from-copies" % slot, case,
                    "mode %s at W=%d: render #%d gives %r, on separate equal objects %r%s"
                    % (mode, W, i, ga, wa, "" if ga != wa else " (styles differ)"))


def check_shared(d, res):
    sm = struct_min(d)
    for W in widths(sm, FULL):
        for mode in SHARED_MODES:
            check_shared_case(d, W, mode, res)


# ------------------------------------------------------------------ Bar / ProgressBar on a fine grid
BAR_WIDTHS = (1, 2, 3, 4, 5, 7, 8, 10, 16, 20, 40)
BAR_GRID = 32                       # units per cell
BAR_SPANS = (-3, 0, 1, 2, 3, 5, 32, None)     # end - begin in units; None = up to the end


def check_bar_case(case, res):
    """case: {"part": "bars", "what": "bar" | "pbar", "W", "console", + constructor arguments}"""
    con = gen.make_console(case["console"])
    W = case["W"]
    try:
        if case["what"] == "bar":
            from rich.bar import Bar
            obj = Bar(case["size"], case["begin"], case["end"], width=case.get("width"))
        else:
            from rich.progress_bar import ProgressBar
            obj = ProgressBar(total=case["total"], completed=case["completed"], width=case.get("width"),
                              pulse=case.get("pulse", False), animation_time=0.0)
        ws = gen.render_widths(con, obj, W)
    except Exception as e:  # noqa: BLE001
        res.evaluations += 1
        res.violate(crash_key(e), case, "%s: %s" % (type(e).__name__, e))
        return
    res.evaluations += 1
    mx = max(ws) if ws else 0
    res.sig((case["what"], case["console"], mx == W, mx == 0, case.get("width") is not None, mx > W),
            nontrivial=mx >= W)
    if mx > W:
        res.violate("%s/fine-grid" % case["what"], case, "a line of %d cells at W=%d" % (mx, W))


def bar_cases(W):
    n = BAR_GRID * W
    for ckind in ("utf8", "ascii"):
        base = {"part": "bars", "W": W, "console": ckind}
        for b in range(0, n + 1):
            for span in BAR_SPANS:
                e = n if span is None else b + span
                yield dict(base, what="bar", size=n, begin=b, end=e)
            if b % 8 == 1:
                yield dict(base, what="bar", size=n, begin=b, end=b + 1, width=max(1, W // 2))
                yield dict(base, what="bar", size=n, begin=b, end=b + 1, width=W + 3)
        yield dict(base, what="bar", size=0, begin=0, end=0)
        yield dict(base, what="bar", size=0, begin=0, end=5)
        for c in range(-2, n + 3):
            yield dict(base, what="pbar", total=n, completed=c)
            if c % 8 == 1:
                yield dict(base, what="pbar", total=n, completed=c, pulse=True)
                yield dict(base, what="pbar", total=n, completed=c, width=max(1, W // 2))
                yield dict(base, what="pbar", total=n, completed=c, width=W + 3)
        yield dict(base, what="pbar", total=0, completed=0)
        yield dict(base, what="pbar", total=0, completed=3)


def check_tree(d, tier, fam_name, res):
    sm = struct_min(d)
    if fam_name == "SH":
        check_shared(d, res)
    if fam_name == "CON":
        for ckind in ("ascii", "legacy"):
            for W in widths(sm, FULL):
                check_case(d, W, ckind, res, sm)
    for W in widths(sm, wmode(tier, fam_name)):
        check_case(d, W, "utf8", res, sm)
    if fam_name in ALT_CONSOLE_FAMILIES:
        for ckind in ("ascii", "legacy"):
            for W in widths(sm, ALT_CONSOLE):
                check_case(d, W, ckind, res, sm)


# ------------------------------------------------------------------ protocol
def plan(tier, seed):
    shards = []
    per = TREES_PER_SHARD[tier]
    for fi, fam in enumerate(gen.families(tier, seed)):
        size = gen.family_size(fam)
        n = max(1, -(-size // per))
        shards += [{"fam": fi, "name": fam["name"], "i": i, "n": n} for i in range(n)]
    shards += [{"part": "bars", "W": W} for W in BAR_WIDTHS]
    return shards


def run_shard(sh, tier, seed):
    res = Result()
    if sh.get("part") == "bars":
        for case in bar_cases(sh["W"]):
            check_bar_case(case, res)
            res.count("bar_cases")
        return res
    fam = gen.families(tier, seed)[sh["fam"]]
    i, n = sh["i"], sh["n"]
    for idx, d in enumerate(gen.family_trees(fam)):
        if idx % n != i:
            continue
        if deadline_passed():
            res.capped = True
            break
        check_tree(d, tier, fam["name"], res)
        res.count("trees")
        res.count("trees_" + fam["name"])
        if idx % 1999 == 0:
            res.sample({"family": fam["name"], "tree": d, "struct_min": struct_min(d)})
    return res


def describe(tier, seed, res):
    fams = gen.families(tier, seed)
    parts = []
    for fam in fams:
        parts.append("%s=%d trees (%s widths)" % (fam["name"], res.counters.get("trees_" + fam["name"], 0),
                                                  {FULL: "full", SHORT: "short", NARROW: "narrow"}[wmode(tier, fam["name"])]))
    return {
        "rule": ("Trees of vf/gen.py families [%s]; family definitions (depth, kids per container, leaf menu, number of "
                 "option deviations, alternatives per option) are in gen.families.__doc__. Each tree x every W of its "
                 "width set (full: struct_min..struct_min+8 u {20,40,80,200}; short: struct_min..+5 u {20,80}; narrow: "
                 "struct_min..+3 u {20,80}) on the utf8 console; D1 and CH3 also on ascii-only and legacy_windows "
                 "consoles at struct_min, struct_min+1, 20. CON = trees of 3 / 4 nodes with multi-line and panel labels, full widths on "
                 "all three consoles. bars = Bar / ProgressBar for W in %s with size / total = 32 W, begin / completed at every "
                 "1/32-cell position, end - begin in %s units (None = to the end), size 0 / total 0, width= W//2 and W+3, pulse, on "
                 "utf8 and ascii-only consoles (%d cases). WT = fixed width options (below and above the available "
                 "width) x titles x expand. SH = one Text object shared between a host's argument / kid slot and the "
                 "host's sibling: additionally every mode of %s x full widths, output compared with the same events on "
                 "separate equal objects and measured against W. "
                 "An evaluation is one render; it is non-trivial when some line uses the full width W (the layout was "
                 "constrained) or exceeds it; distinct = (root kind, lines, tight, ragged, at-minimum, overflow) "
                 "signatures. Not the full option product: deviation-bounded." % ("; ".join(parts), list(BAR_WIDTHS), list(BAR_SPANS), res.counters.get("bar_cases", 0),
                                                                                 sorted(SHARED_MODES))),
        "assumptions": [
            "struct_min is computed from the description (vf/structmin.py) and errs on the large side; widths below it are not judged (C14 covers termination there)",
            "tables have columns free to wrap: no Table(width), Columns(width), column width / min_width / no_wrap",
            "ProgressBar is never a direct child of a Group (it emits no trailing newline by design)",
            "width oracle = CELL_WIDTHS table data scanned by vf/width.py (lookup arithmetic is C13's business)",
        ],
        "coverage": {"trees": res.counters.get("trees", 0)},
    }


def replay(case):
    res = Result()
    if case.get("part") == "bars":
        check_bar_case(case, res)
    elif case.get("mode"):
        check_shared_case(case["tree"], case["W"], case["mode"], res)
    else:
        check_case(case["tree"], case["W"], case.get("console", "utf8"), res)
    return [(k, v[2]) for k, v in sorted(res.violations.items())]
