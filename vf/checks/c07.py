"""C07 -- Tables are rectangles that show every cell in its own column.

A case is a plain description: table options (only the non-default ones), one
option dict per column, rows of cell ids from a fixed cell menu, and a console
width W.  A fresh Table is built from it, rendered with
`console.render(table, console.options.update(width=W))`, the Segment stream is
cut into lines at newlines and measured with vf/width.py.  The judge knows the
box drawing characters from its own copy of the five box definitions and never
asks rich what the output should look like (the only value taken from the
implementation is the width vector for boxes whose column dividers are blanks,
as DESIGN section 3 C07 says):

(1) every body line (everything except the title/caption lines, which are made
    of characters nothing else uses) has the same cell width;
(2) when the table is asked to expand (expand=True, or width=N with N <= W) and
    no column has `width`/`max_width`, that width is exactly W (resp. N);
(3) column boundaries are read from the rendered lines (the vertical characters,
    which no cell contains) and must be the same on every content line; every
    horizontal border line must be exactly a border of the box on these columns;
(4) the content lines can be cut, in order, into one block of >=1 lines per row
    (header, rows in insertion order, footer; no block crosses a border line)
    so that in every block every column span holds only characters of that
    row's cell of that column (in order), and for overflow="fold" columns whose
    span is wide enough for the cell, exactly all of its non-whitespace characters;
(5) at widths at or above a conservative "ample" width nothing may have been
    squeezed: every fold cell whose need is within its column's own width cap
    (max_width / width, if any) must be shown completely whatever the span says,
    and no uncapped fold column is narrower than its cell contents need.

Widths below struct_min(description) are only executed (crash = violation).

Render contexts: the clauses are also judged when the same table is rendered with inherited
print options (no_wrap=True; justify/overflow), as the cell of an outer grid column
(no_wrap / fixed width / ratio) and inside Panel / Padding -- see render_ctx().

Bounds and cost (measured; the machine was shared, so CPU seconds are the reliable number):
quick    34.8 k tables, ~450 k renders, ~3.0 k distinct outcomes, ~950 CPU-s (~65 s on 16 idle cores; 210 s wall
         measured with 16 workers at load average ~45);
thorough not re-measured after families C/J and the 13-entry menu were added (the last full run, before the
         asymmetric paddings, was 242 k tables / 3.05 M renders / 9.3 k CPU-s; estimated now ~14 k CPU-s, ~15 min
         on 16 idle cores).
DESIGN planned "<=4 columns, <=3+2 deviations" at 0.8 ms per render; a render of a 3x3 table with nested
cells costs 9 ms, so the deviation bound is per (shape, filling, default overflow) unit -- see _units().
"""
import io
import itertools
import re
import traceback

from .. import dyn
from ..par import Result, deadline_passed
from ..width import cw, sw

ID = "C07"
LEVEL = "exploration"
ENGINE = "E1"
CAP_S = {"quick": 900, "thorough": 2400}
TECHNIQUE = ("bounded-exhaustive enumeration of table descriptions (shape x cell filling x deviation-bounded "
             "option vectors x every width from the structural minimum) on the real Table, judged by an "
             "independent rectangle / column-span / row-block reference")
LEVEL_TEXT = ("Every table description inside the stated bounds is rendered by the real code at every width of "
              "the range and judged line by line: equal widths, exact expansion, vertical alignment of the column "
              "boundaries read from the output, border lines, and an exhaustive search for a row-block "
              "segmentation that puts every cell into its own column. Exhaustive inside the bounds; nothing is sampled.")
LEVEL_NOTE = ("Trusted: CPython, the CELL_WIDTHS data (vf/width.py), the reference in this module (own copy of the box "
              "characters). Option space is deviation-bounded, not the full product; cell fillings are a fixed family "
              "per shape plus all fillings of one-row tables.")

# ----------------------------------------------------------------------------- data
# own copy of the box definitions (8 lines x 4 characters: left, fill, divider, right)
BOXES = {
    "HEAVY_HEAD": ["┏━┳┓", "┃ ┃┃", "┡━╇┩", "│ ││", "├─┼┤", "├─┼┤", "│ ││", "└─┴┘"],
    "ASCII":      ["+--+", "| ||", "|-+|", "| ||", "|-+|", "|-+|", "| ||", "+--+"],
    "SIMPLE":     ["    ", "    ", " ── ", "    ", "    ", " ── ", "    ", "    "],
    "MINIMAL":    ["  ╷ ", "  │ ", "╶─┼╴", "  │ ", "╶─┼╴", "╶─┼╴", "  │ ", "  ╵ "],
    "SQUARE":     ["┌─┬┐", "│ ││", "├─┼┤", "│ ││", "├─┼┤", "├─┼┤", "│ ││", "└─┴┘"],
}
H_LEVELS = (0, 2, 4, 5, 7)     # top, head_row, row, foot_row, bottom
V_LEVELS = (1, 3, 6)           # head, mid, foot

# cell menu.  P = Panel("x") and T = 1x1 Table, both drawn with the DOUBLE box so
# that their characters never collide with the boxes of the table under test.
# The unbroken runs of double-width characters make a fold column break wide characters
# over >=3 lines at odd as well as even text widths (a line that *starts* with a wide
# character is a code path of its own in chop_cells); "aあいうえお" shifts the parity.
PLAIN = ["a", "あいうえお", "あい うえ おか きく", "ひか\u3099 しろ", "ab cd", "aあいうえお", "cafe\u0301 ole\u0301",
         "a\u2705 \u2b50b \u26a1", "あい", "a あい b うえお c", "a\nbb c", "", "abcdefgh"]
# "ひか\u3099 しろ" / "cafe\u0301 ole\u0301": zero-width combining marks (U+3099 on a wide base, U+0301 on a
# narrow base, as NFD text has them) as the last character of a word that is followed by a space
# and as the last character of the cell; over the width range the word exactly fills the column.
# A mark is a non-whitespace character of the cell like any other.
# "あい うえ おか きく" / "a あい b うえお c": >=3 space-separated words of double-width (and mixed)
# characters: they wrap at word boundaries, so justify x fold meets wide words on full lines.
# U+2705, U+2B50, U+26A1 are double-width code points that have a CELL_WIDTHS entry of their own
# (start == end): a lookup that mishandles range ends mis-measures exactly these.
MENU = PLAIN + ["P", "T"]
OFF2 = 6          # second filling offset (offset 0 is the first)
# family A enumerates every filling; shapes with >=3 cells draw from this reduced menu
A_MENU = ["a", "あいうえお", "あい うえ おか きく", "ひか\u3099 しろ", "a\u2705 \u2b50b \u26a1", "P"]
NESTED_NEED = 5
T_CHARS = "╔═══╗║y║╚═══╝"
P_RE = re.compile(r"^╔(═*)╗║x║╚(═*)╝$")

TITLE, CAPTION = "Q R", "U V"
TITLE_CH, CAPTION_CH = set("QR"), set("UV")

DEFAULT_HEADER, FOOTER = "h", "f"

T_DEFAULT = {"box": "HEAVY_HEAD", "show_header": True, "show_footer": False, "show_edge": True,
             "show_lines": False, "leading": 0, "padding": [0, 1], "pad_edge": True,
             "collapse_padding": False, "expand": False, "width": None, "min_width": None,
             "title": None, "caption": None, "row_styles": None, "end_section": None}
C_DEFAULT = {"justify": "left", "overflow": "ellipsis", "ratio": None, "max_width": None,
             "min_width": None, "no_wrap": False, "width": None, "header": DEFAULT_HEADER}


def _topt(desc, name):
    return desc["t"].get(name, T_DEFAULT[name])


def _copt(desc, i, name):
    v = desc["c"][i].get(name)
    if v is None and name not in desc["c"][i]:
        v = desc.get("base_overflow", "ellipsis") if name == "overflow" else C_DEFAULT[name]
    return v


def _unpack_pad(p):
    """-> (top, right, bottom, left) like CSS"""
    if isinstance(p, int):
        return (p, p, p, p)
    p = list(p)
    if len(p) == 1:
        return (p[0],) * 4
    if len(p) == 2:
        return (p[0], p[1], p[0], p[1])
    return tuple(p)


# ----------------------------------------------------------------------------- struct_min
def _plain_need(text, no_wrap):
    if no_wrap:
        return max(sw(line) for line in text.split("\n"))
    if not text.strip():
        return 0
    return 2 if any(cw(ch) == 2 for ch in text) else 1


def cell_need(cid, no_wrap=False):
    """cells of content width below which the cell cannot be shown completely"""
    if cid in ("P", "T"):
        return NESTED_NEED
    return _plain_need(cid, no_wrap)


def _column_texts(desc, i):
    out = []
    if _topt(desc, "show_header"):
        out.append(_copt(desc, i, "header"))
    out.extend(row[i] for row in desc["rows"])
    if _topt(desc, "show_footer"):
        out.append(FOOTER)
    return out


def column_need(desc, i):
    nw = _copt(desc, i, "no_wrap")
    return max([1] + [cell_need(t, nw) for t in _column_texts(desc, i)])


def extra_width(desc):
    n = len(desc["c"])
    if _topt(desc, "box") == "NONE":
        return 0
    return (n - 1) + (2 if _topt(desc, "show_edge") else 0)


def raw_pad(desc):
    _, r, _, l = _unpack_pad(_topt(desc, "padding"))
    return l + r


def struct_min(desc):
    """Conservative structural minimum: every column gets what its widest
    unbreakable piece needs (or its explicit width / min_width) plus the full
    horizontal padding (collapse_padding / pad_edge reductions are ignored: errs
    on the large side), plus borders."""
    total = extra_width(desc)
    pad = raw_pad(desc)
    for i in range(len(desc["c"])):
        need = column_need(desc, i)
        for k in ("width", "min_width"):
            v = _copt(desc, i, k)
            if v:
                need = max(need, v)
        total += need + pad
    return total


def ample_min(desc):
    """At or above this width a correct width solver can never have squeezed a
    column below its need: shrinking equalises columns from the top, so every
    shrunk column keeps at least (available / columns) - 1."""
    n = len(desc["c"])
    pad = raw_pad(desc)
    m = 1
    for i in range(n):
        need = column_need(desc, i)
        for k in ("width", "min_width"):
            v = _copt(desc, i, k)
            if v:
                need = max(need, v)
        m = max(m, need + pad)
    return extra_width(desc) + n * (m + 1)


# ----------------------------------------------------------------------------- building
def _build_cell(cid):
    from rich import box
    from rich.panel import Panel
    from rich.table import Table
    if cid == "P":
        return Panel("x", box=box.DOUBLE)
    if cid == "T":
        t = Table(box=box.DOUBLE, show_header=False)
        t.add_column()
        t.add_row("y")
        return t
    return cid


def build_table(desc):
    from rich import box
    from rich.table import Table
    kw = {}
    for k, v in desc["t"].items():
        if k == "box":
            kw["box"] = None if v == "NONE" else getattr(box, v)
        elif k == "padding":
            kw["padding"] = tuple(v) if isinstance(v, list) else v
        elif k == "end_section":
            pass
        else:
            kw[k] = dyn(v)
    table = Table(**kw)
    for i, co in enumerate(desc["c"]):
        ckw = {k: dyn(v) for k, v in co.items() if k != "header"}
        ckw.setdefault("overflow", dyn(desc.get("base_overflow", "ellipsis")))
        if ckw.get("ratio") is not None and table.width is None:
            table.expand = True       # a ratio is documented to require expand or width
        table.add_column(_copt(desc, i, "header"), footer=FOOTER, **ckw)
    es = desc["t"].get("end_section")
    for r, row in enumerate(desc["rows"]):
        table.add_row(*[_build_cell(c) for c in row], end_section=(es == r))
    return table


def wants_expand(desc):
    if _topt(desc, "expand") or _topt(desc, "width") is not None:
        return True
    return any(_copt(desc, i, "ratio") is not None for i in range(len(desc["c"])))


_CONSOLE = [None]


def console():
    if _CONSOLE[0] is None:
        from rich.console import Console
        _CONSOLE[0] = Console(file=io.StringIO(), width=80, height=25, force_terminal=True,
                              color_system="truecolor", legacy_windows=False, _environ={})
    return _CONSOLE[0]


def render_lines(desc, W):
    con = console()
    table = build_table(desc)
    text = "".join(seg.text for seg in con.render(table, con.options.update(width=W)) if not seg.is_control)
    lines = text.split("\n")
    if lines and lines[-1] == "":
        lines.pop()
    return lines


def impl_widths(desc, W):
    con = console()
    table = build_table(desc)
    maxw = table.width if table.width is not None else W
    return list(table._calculate_column_widths(con, maxw - table._extra_width))


# ----------------------------------------------------------------------------- render contexts
# The same table, handed to the renderer in different surroundings.  Every context gives the
# table a known width A (for "grid:no_wrap" A is read from the output: the outer column is as
# wide as the outer table's lines), so all clauses apply unchanged with W := A.
CONTEXTS = ["plain", "opt:no_wrap", "opt:justify+overflow", "grid:no_wrap", "grid:width", "grid:ratio",
            "panel", "padding", "print:crop"]


def _join_lines(segments):
    text = "".join(seg.text for seg in segments if not seg.is_control)
    lines = text.split("\n")
    if lines and lines[-1] == "":
        lines.pop()
    return lines


def _region(lines, a, b):
    return ["".join(_cells_of(l)[a:b]) for l in lines]


_PRINT_CONSOLES = {}


def _print_console(W):
    if W not in _PRINT_CONSOLES:
        from rich.console import Console
        _PRINT_CONSOLES[W] = Console(file=io.StringIO(), width=W, height=25, force_terminal=False, color_system=None,
                                     legacy_windows=False, _environ={})
    return _PRINT_CONSOLES[W]


def render_ctx(desc, W, ctx):
    """-> (lines belonging to the table, width the table was given)"""
    if ctx == "plain":
        return render_lines(desc, W), W
    from rich import box
    from rich.padding import Padding
    from rich.panel import Panel
    from rich.table import Table
    con = console()
    table = build_table(desc)
    opts = con.options
    if ctx == "opt:no_wrap":             # console.print(table, no_wrap=True)
        return _join_lines(con.render(table, opts.update(width=W, no_wrap=True))), W
    if ctx == "opt:justify+overflow":    # console.print(table, justify="full", overflow="crop")
        return _join_lines(con.render(table, opts.update(width=W, justify="full", overflow="crop"))), W
    if ctx == "print:crop":              # Console(width=W).print(table): the final crop to the console width
        pc = _print_console(W)
        pc.file.seek(0)
        pc.file.truncate()
        pc.print(table)
        lines = pc.file.getvalue().split("\n")
        if lines and lines[-1] == "":
            lines.pop()
        return lines, W
    if ctx.startswith("grid:"):
        outer = Table.grid(expand=(ctx == "grid:ratio"))
        if ctx == "grid:no_wrap":
            outer.add_column(no_wrap=True)
            ow = W
        elif ctx == "grid:width":
            outer.add_column(width=W)
            ow = W + 2
        else:
            outer.add_column(ratio=1)
            ow = W
        outer.add_row(table)
        lines = _join_lines(con.render(outer, opts.update(width=ow)))
        a = W
        if ctx == "grid:no_wrap" and lines:
            a = max(sw(l) for l in lines)
        return _unpad(desc, a, lines), a
    if ctx == "panel":
        lines = _join_lines(con.render(Panel(table, box=box.DOUBLE), opts.update(width=W + 4)))
        return _unpad(desc, W, _region(lines[1:-1], 2, W + 2)), W
    if ctx == "padding":
        lines = _join_lines(con.render(Padding(table, (1, 2, 0, 1)), opts.update(width=W + 3)))
        return _unpad(desc, W, _region(lines[1:], 1, W + 1)), W
    raise ValueError(ctx)


def _unpad(desc, a, lines):
    """A container pads the lines of a table that is narrower than the room it was given.
    Tables whose right edge is a visible border character: strip the blanks after it.
    Others: the table is as wide as its own width vector says; cut there if only blanks follow."""
    bx = BOXES.get(_topt(desc, "box"))
    if bx and _topt(desc, "show_edge") and bx[3][3] != " ":
        return [l.rstrip(" ") for l in lines]
    try:
        w_in = sum(impl_widths(desc, a)) + extra_width(desc)
    except Exception:
        return lines
    out = []
    for l in lines:
        cells = _cells_of(l)
        rest = cells[w_in:]
        if rest and (rest[0] == "" or any(c.strip() for c in rest)):
            return lines
        out.append("".join(cells[:w_in]))
    return out


# ----------------------------------------------------------------------------- judge
def _cells_of(line):
    """list indexed by cell position: the character starting there, '' for the
    second half of a wide character; zero-width characters join the previous cell."""
    out = []
    for ch in line:
        w = cw(ch)
        if w == 0:
            if out:
                k = len(out) - 1
                while k > 0 and out[k] == "":
                    k -= 1
                out[k] += ch
            continue
        out.append(ch)
        if w == 2:
            out.append("")
    return out


def _nonws(cells, a, b):
    return "".join(ch for c in cells[a:b] for ch in c if not ch.isspace())


def _is_subseq(small, big):
    it = iter(big)
    return all(ch in it for ch in small)


class Verdict:
    def __init__(self):
        self.problems = []     # (key, detail)
        self.sig = None
        self.nontrivial = False

    def bad(self, key, detail):
        self.problems.append((key, detail))


def judge(desc, W, lines):
    v = Verdict()
    n = len(desc["c"])
    boxname = _topt(desc, "box")
    bx = BOXES.get(boxname)
    show_edge = _topt(desc, "show_edge") and bx is not None
    avail = _topt(desc, "width") if _topt(desc, "width") is not None else W
    smin = struct_min(desc)
    if avail < smin:
        v.sig = ("below-min",)
        return v

    # -- title / caption lines
    body = list(lines)
    nt = nc = 0
    if _topt(desc, "title"):
        while body and body[0].strip() and set(body[0].replace(" ", "")) <= TITLE_CH:
            body.pop(0)
            nt += 1
    if _topt(desc, "caption"):
        while body and body[-1].strip() and set(body[-1].replace(" ", "")) <= CAPTION_CH:
            body.pop()
            nc += 1
    if not body:
        v.sig = ("empty",)
        return v

    # -- (1) rectangle
    widths = [sw(l) for l in body]
    common = max(set(widths), key=lambda x: (widths.count(x), -x))
    if len(set(widths)) > 1:
        odd = [(i, l) for i, l in enumerate(body) if sw(l) != common]
        i, l = odd[0]
        k = sw(l) // common if common else 0
        unit = next((b for b in body if sw(b) == common), "")
        if common and k >= 2 and sw(l) == k * common and l == l[:len(l) // k] * k:
            v.bad("rectangle/one-line-holds-k-copies-of-a-row",
                  "line %d is %d copies of a %d-cell row on ONE line: %r (other lines %d cells)" % (i, k, common, l, common))
        else:
            v.bad("rectangle/unequal-line-widths",
                  "line widths %r (line %d: %r; a regular line: %r)" % (widths, i, l, unit))
        v.sig = ("unequal",)
        return v
    width = common

    # -- (2) expansion
    capped = any(_copt(desc, i, "max_width") is not None or _copt(desc, i, "width") is not None for i in range(n))
    exp_judged = False
    if wants_expand(desc) and not capped:
        want = None
        if _topt(desc, "width") is not None:
            if _topt(desc, "width") <= W:
                want = _topt(desc, "width")
        else:
            want = W
        if want is not None:
            exp_judged = True
            if width != want:
                key = "expand/narrower-than-available" if width < want else "expand/wider-than-available"
                if not desc["rows"] and not _topt(desc, "show_header") and not _topt(desc, "show_footer"):
                    key += "/table-has-no-cells"      # degenerate: only the top and bottom border exist
                # a table min_width can only explain a table that stays too narrow,
                # a column min_width only one that gets too wide: separate finding keys
                if width < want and _topt(desc, "min_width") is not None:
                    key += "/table-min_width-set"
                if width > want and any(_copt(desc, i, "min_width") is not None for i in range(n)):
                    key += "/column-min_width-set"
                v.bad(key, "table asked to fill %d cells (struct_min %d) but its lines are %d cells wide" % (want, smin, width))

    # -- (3) boundaries
    cells = [_cells_of(l) for l in body]
    edge_off = 1 if show_edge else 0
    spans = None
    hset, vset = set(), set()
    if bx:
        for lv in V_LEVELS:
            vset |= {ch for ch in (bx[lv][0], bx[lv][2], bx[lv][3]) if ch != " "}
        for lv in H_LEVELS:
            hset |= {ch for ch in bx[lv] if ch != " "}
        hset -= vset
    is_sep = [bool(hset) and any(ch in hset for ch in l) for l in body]
    interior_visible = bool(bx) and bx[3][2] != " "
    edge_visible = bool(bx) and bx[3][0] != " "
    content_idx = [i for i, s in enumerate(is_sep) if not s]
    if interior_visible and content_idx:
        want_count = (n - 1) + (2 if (show_edge and edge_visible) else 0)
        ref_pos = None
        for i in content_idx:
            pos = [p for p, ch in enumerate(cells[i]) if ch[:1] in vset]      # a mark may ride on a divider
            if ref_pos is None:
                ref_pos = pos
            if pos != ref_pos or len(pos) != want_count:
                v.bad("columns/vertical-dividers-misaligned",
                      "line %d %r has dividers at %r; first content line at %r; expected %d dividers"
                      % (i, body[i], pos, ref_pos, want_count))
                v.sig = ("misaligned",)
                return v
        b = list(ref_pos)
        if show_edge and edge_visible:
            if not b or b[0] != 0 or b[-1] != width - 1:
                v.bad("columns/edge-not-at-line-ends", "dividers %r in a %d-cell line" % (b, width))
                return v
            b = b[1:-1]
        spans, start = [], edge_off
        for p in b:
            spans.append((start, p))
            start = p + 1
        spans.append((start, width - edge_off))
    else:
        try:
            ws = impl_widths(desc, W)
        except Exception:
            ws = None
        if ws is not None and len(ws) == n:
            spans, start = [], edge_off
            for w_ in ws:
                spans.append((start, start + w_))
                start += w_ + (1 if bx else 0)
            end = start - (1 if bx else 0) + edge_off
            if end != width:
                v.bad("columns/width-vector-does-not-add-up-to-line",
                      "width vector %r + borders = %d cells, lines are %d cells" % (ws, end, width))
                return v
    if spans is None or any(b_ < a for a, b_ in spans):
        v.sig = ("no-spans",)
        return v

    # -- border lines
    if bx:
        levels = []
        for lv in H_LEVELS:
            l_, h_, x_, r_ = bx[lv]
            s = (l_ if show_edge else "") + x_.join(h_ * (b_ - a) for a, b_ in spans) + (r_ if show_edge else "")
            levels.append(s)
        for i, s in enumerate(is_sep):
            if s and body[i] not in levels:
                v.bad("border/line-does-not-match-columns",
                      "border line %d %r is none of %r (column spans %r)" % (i, body[i], levels, spans))
                break

    # -- (4) row blocks
    rows = []     # per row: list of cell ids / header strings
    if _topt(desc, "show_header"):
        rows.append([_copt(desc, i, "header") for i in range(n)])
    rows.extend(list(r) for r in desc["rows"])
    if _topt(desc, "show_footer"):
        rows.append([FOOTER] * n)
    pad = raw_pad(desc)
    fold = [_copt(desc, i, "overflow") == "fold" for i in range(n)]
    no_wrap = [_copt(desc, i, "no_wrap") for i in range(n)]
    judged_exact = [0]

    def cell_ok(cid, got, c, exact):
        if cid == "T":
            return got == T_CHARS if exact else True
        if cid == "P":
            if exact:
                m = P_RE.match(got)
                return bool(m) and m.group(1) == m.group(2)
            return True
        want = "".join(ch for ch in cid if not ch.isspace())
        if exact:
            return got == want
        return _is_subseq(got.replace("…", ""), want)

    def _span_chars(cl, a, b_):
        # a zero-width mark at the very start of a span is stored with the cell before it; it counts towards this
        # span only when that cell is a divider / border -- when spans are adjacent (no box, no padding) the cell
        # before is the last cell of the neighbouring column and the mark belongs to the character it sits on
        in_other_span = any(sa <= a - 1 < sb for sa, sb in spans)
        lead = cl[a - 1][1:] if 0 < a <= len(cl) and len(cl[a - 1]) > 1 and not in_other_span else ""
        return "".join(ch for ch in lead if not ch.isspace()) + _nonws(cl, a, b_)

    span_text = [[_span_chars(cells[i], a, b_) for a, b_ in spans] for i in range(len(body))]
    blank = [not s and not any(span_text[i]) for i, s in enumerate(is_sep)]
    flex = any(_copt(desc, i, "ratio") is not None for i in range(n))
    ample = avail >= ample_min(desc) and not flex
    caps = []
    for c in range(n):
        cs = [x for x in (_copt(desc, c, "max_width"), _copt(desc, c, "width")) if x is not None]
        caps.append(min(cs) if cs else None)

    def must_be_exact(c, cid):
        if not fold[c]:
            return False
        need = cell_need(cid, no_wrap[c])
        if spans[c][1] - spans[c][0] >= need + pad:
            return True
        # at ample width nothing may have been squeezed: the column has room for its
        # content, or for what its own width cap allows -- whatever the span says
        return ample and (caps[c] is None or caps[c] >= need)

    exact_ok = [[must_be_exact(c, cid) for c, cid in enumerate(row)] for row in rows]

    def block_ok(r, i, j, use_exact):
        for c in range(n):
            got = "".join(span_text[k][c] for k in range(i, j))
            if not cell_ok(rows[r][c], got, c, use_exact and exact_ok[r][c]):
                return False
        return True

    def search(use_exact):
        L, R = len(body), len(rows)
        memo = {}

        def go(i, r):
            if (i, r) in memo:
                return memo[(i, r)]
            if i == L:
                res = (r == R)
            else:
                res = False
                if is_sep[i] or blank[i]:
                    res = go(i + 1, r)
                if not res and r < R and not is_sep[i]:
                    j = i + 1
                    while j <= L:
                        if block_ok(r, i, j, use_exact) and go(j, r + 1):
                            res = True
                            break
                        if j < L and is_sep[j]:
                            break
                        j += 1
            memo[(i, r)] = res
            return res
        return go(0, 0)

    n_exact = sum(1 for row in exact_ok for e in row if e)
    if not search(True):
        if n_exact and search(False):
            v.bad("fold/characters-lost-or-outside-their-column",
                  "no way to cut the lines into row blocks so that every fold column shows exactly its cell's "
                  "characters; rows %r spans %r lines %r" % (rows, spans, body))
        else:
            v.bad("rows/cells-not-in-order-in-their-own-columns",
                  "no way to cut the lines into one block per row (in order) with every column span holding only "
                  "characters of its own cell; rows %r spans %r lines %r" % (rows, spans, body))

    # -- (5) no fold column starved at ample width
    if ample:
        for c in range(n):
            if not fold[c] or _copt(desc, c, "max_width") is not None or _copt(desc, c, "width") is not None:
                continue
            need = column_need(desc, c)
            if spans[c][1] - spans[c][0] < need:
                v.bad("columns/fold-column-narrower-than-its-content-at-ample-width",
                      "column %d is %d cells wide, its content needs %d; available %d >= ample %d"
                      % (c, spans[c][1] - spans[c][0], need, avail, ample_min(desc)))
                break

    slack = avail - smin
    v.sig = (boxname if not interior_visible else "vis", n, min(len(rows), 3),
             0 if slack == 0 else (1 if slack <= 3 else (2 if slack <= 10 else 3)),
             exp_judged, min(n_exact, 3), min(sum(is_sep), 4), len(body) > len(rows) + sum(is_sep), ample, nt + nc > 0)
    v.nontrivial = bool(exp_judged or n_exact or len(body) > len(rows) + sum(is_sep))
    return v


# ----------------------------------------------------------------------------- enumeration
T_ATOMS = [
    ("box", ["NONE", "ASCII", "SIMPLE", "MINIMAL", "SQUARE"]),
    ("show_header", [False]), ("show_footer", [True]), ("show_edge", [False]), ("show_lines", [True]),
    ("leading", [1, 2]),
    # (top, right, bottom, left): symmetric, left > right, right > left, top/bottom asymmetric
    ("padding", [0, [0, 2], [1, 1], [0, 1, 0, 3], [0, 0, 0, 2], [0, 3, 0, 1], [1, 0, 0, 0]]), ("pad_edge", [False]),
    ("collapse_padding", [True]), ("expand", [True]), ("width", [["rel", 3]]), ("min_width", [20]),
    ("title", [TITLE]), ("caption", [CAPTION]), ("row_styles", [["on red", ""]]), ("end_section", [0, 1]),
]
C_ATOMS = [
    ("overflow", ["fold", "crop"]), ("justify", ["center", "right", "full"]), ("ratio", [1, 2]),
    ("max_width", [3, 10]), ("min_width", [6]), ("no_wrap", [True]), ("width", [4]),
    ("header", ["", "あh x"]),
]


def _atoms(n, nrows, base_overflow):
    """all single deviations as (slot, setter) with slot identifying the option"""
    out = []
    for name, vals in T_ATOMS:
        for val in vals:
            if name == "end_section" and val >= nrows:
                continue
            out.append((("t", name), val))
    for i in range(n):
        for name, vals in C_ATOMS:
            for val in vals:
                if name == "overflow" and val == base_overflow:
                    val = "ellipsis"
                out.append((("c", i, name), val))
    return out


def _apply(n, rows, base_overflow, combo):
    desc = {"t": {}, "c": [{} for _ in range(n)], "rows": rows, "base_overflow": base_overflow}
    rel = None
    for slot, val in combo:
        if slot[0] == "t":
            if slot[1] == "width":
                rel = val[1]
            else:
                desc["t"][slot[1]] = val
        else:
            desc["c"][slot[1]][slot[2]] = val
    if rel is not None:
        desc["t"]["width"] = struct_min(desc) + rel
    return desc


def _combos(atoms, k):
    """all sets of <=k atoms with pairwise different slots, fewest deviations first"""
    for size in range(k + 1):
        for combo in itertools.combinations(atoms, size):
            slots = [c[0] for c in combo]
            if len(set(slots)) == len(slots):
                yield combo


def filling(n, nrows, offset):
    return [[MENU[(offset + r * n + c) % len(MENU)] for c in range(n)] for r in range(nrows)]


def widths_for(desc):
    sm = struct_min(desc)
    ws = list(range(sm, sm + 11))
    for extra in (40, 80):
        if extra not in ws:
            ws.append(extra)
    tw = desc["t"].get("width")
    if tw is not None:
        # the table width decides; console widths below / at / above it
        ws = sorted({tw - 1, tw, tw + 1, tw + 7, 80})
    return ws


SLICES = 48
# column width options of family P (max_width=1 exists only here: a cap below the need of wide cells)
P_CATOMS = [("max_width", 1), ("max_width", 3), ("width", 4), ("min_width", 6), ("ratio", 1)]
A_TOPTS = [(), ((("t", "expand"), True),), ((("t", "box"), "NONE"),), ((("t", "show_lines"), True),),
           ((("t", "padding"), 0),)]

# units of family O: (columns, rows, filling offset, column default overflow, deviation bound)
def _units(tier):
    out = []
    if tier == "quick":
        for n in (1, 2, 3):
            for rows in (0, 1, 2, 3):
                out.append((n, rows, 0, "fold", 2 if rows <= 2 else 1))
                out.append((n, rows, OFF2 if rows else 0, "ellipsis", 1))
    else:
        for n in (1, 2, 3):
            for rows in (0, 1, 2, 3):
                for off in ((0, OFF2) if rows else (0,)):
                    for bo in ("fold", "ellipsis"):
                        k = 2
                        if off == 0 and bo == "fold" and (n <= 2 or rows == 2):
                            k = 3
                        out.append((n, rows, off, bo, k))
        for rows in (0, 1, 2, 3):
            out.append((4, rows, 0, "fold", 2))
            out.append((4, rows, OFF2 if rows else 0, "ellipsis", 1))
    return out


def _ctx_units(tier):
    """(columns, rows, deviation bound) of family C"""
    if tier == "quick":
        return [(1, 1, 1), (1, 2, 1), (2, 0, 1), (2, 1, 1), (2, 2, 1), (3, 1, 1), (3, 2, 1)]
    return [(1, 1, 2), (1, 2, 2), (2, 0, 2), (2, 1, 2), (2, 2, 2), (3, 1, 1), (3, 2, 1), (3, 3, 1), (4, 1, 1), (4, 2, 1)]


J_JUSTIFY = ["left", "center", "right", "full"]
J_OVERFLOW = ["fold", "crop", "ellipsis"]


def _ncombos(natoms, k):
    # upper estimate, only used to size shards
    import math
    return sum(math.comb(natoms, j) for j in range(k + 1))


def plan(tier, seed):
    shards = []
    target = 12.0 if tier == "quick" else 60.0          # estimated cpu-seconds per shard
    for n, rows, off, bo, k in _units(tier):
        natoms = len(_atoms(n, rows, bo))
        cost = _ncombos(natoms, k) * 13 * (1.2 + 0.85 * n * rows) / 1000.0
        parts = max(1, int(cost / target + 0.999))
        for i in range(parts):
            shards.append({"fam": "O", "n": n, "rows": rows, "off": off, "bo": bo, "k": k, "i": i, "parts": parts})
    # family A: every filling of small tables
    for n, rows, parts in ((1, 1, 1), (2, 1, 2), (3, 1, 6), (1, 2, 2)):
        for i in range(parts):
            shards.append({"fam": "A", "n": n, "rows": rows, "i": i, "parts": parts})
    # family P: full product of the padding-related table options x one column width option
    for n, rows in (((2, 1), (3, 1), (2, 2)) if tier == "quick" else ((2, 1), (3, 1), (2, 2), (3, 2), (4, 1))):
        for off in ((0,) if tier == "quick" else (0, OFF2)):
            for i in range(2):
                shards.append({"fam": "P", "n": n, "rows": rows, "off": off, "i": i, "parts": 2})
    # family J: one cell text x justify x overflow x no_wrap (x expand), in every render context
    for ctx in CONTEXTS:
        shards.append({"fam": "J", "n": 1, "ctx": ctx})
    for ctx in (("plain",) if tier == "quick" else CONTEXTS):
        shards.append({"fam": "J", "n": 2, "ctx": ctx})
    # family C: the <=k-deviation tables of family O (fold, offset 0) in every non-plain render context
    for n, rows, k in _ctx_units(tier):
        for ctx in CONTEXTS[1:]:
            parts = 1 if k < 2 else (3 if n == 1 else 8)
            for i in range(parts):
                shards.append({"fam": "C", "n": n, "rows": rows, "off": 0, "bo": "fold", "k": k, "ctx": ctx,
                               "i": i, "parts": parts})
    if tier == "thorough":
        for i in range(12):
            shards.append({"fam": "A", "n": 2, "rows": 2, "i": i, "parts": 12})
        for i in range(20):
            shards.append({"fam": "B", "vec": i})
    else:
        # rotating slice of the thorough space: three deviations on two shapes
        for (n, rows) in ((2, 2), (3, 1)):
            shards.append({"fam": "O3", "n": n, "rows": rows, "off": 0, "bo": "fold", "slice": seed % SLICES})
    # biggest first so that the pool drains evenly
    return shards


# the 6x8 family: 20 option vectors
B_VECTORS = [
    {}, {"expand": True}, {"box": "NONE"}, {"box": "ASCII", "show_lines": True}, {"leading": 1},
    {"show_footer": True, "show_edge": False}, {"padding": 0, "expand": True}, {"collapse_padding": True, "padding": [0, 2]},
    {"pad_edge": False}, {"box": "SIMPLE", "expand": True}, {"box": "MINIMAL", "show_footer": True},
    {"box": "SQUARE", "end_section": 1}, {"show_header": False}, {"padding": [1, 1], "show_lines": True},
    {"title": TITLE, "caption": CAPTION}, {"row_styles": ["on red", ""], "expand": True},
    {"box": "NONE", "padding": 0}, {"box": "ASCII", "show_edge": False, "expand": True},
    {"min_width": 20}, {"show_footer": True, "show_lines": True, "expand": True},
]


def _cases(sh, tier):
    """yields table descriptions of one shard"""
    fam = sh["fam"]
    if fam in ("O", "O3"):
        n, nrows, bo = sh["n"], sh["rows"], sh["bo"]
        rows = filling(n, nrows, sh["off"])
        atoms = _atoms(n, nrows, bo)
        if fam == "O":
            for idx, combo in enumerate(_combos(atoms, sh["k"])):
                if idx % sh["parts"] == sh["i"]:
                    yield _apply(n, rows, bo, combo)
        else:
            idx = 0
            for combo in itertools.combinations(atoms, 3):
                slots = [c[0] for c in combo]
                if len(set(slots)) != 3:
                    continue
                if idx % SLICES == sh["slice"]:
                    yield _apply(n, rows, bo, combo)
                idx += 1
    elif fam == "A":
        n, nrows = sh["n"], sh["rows"]
        menu = MENU if n * nrows <= 2 else A_MENU
        for idx, flat in enumerate(itertools.product(menu, repeat=n * nrows)):
            if idx % sh["parts"] != sh["i"]:
                continue
            rows = [list(flat[r * n:(r + 1) * n]) for r in range(nrows)]
            for bo in ("ellipsis", "fold"):
                for combo in A_TOPTS:
                    yield _apply(n, rows, bo, combo)
    elif fam == "C":
        n, nrows, bo = sh["n"], sh["rows"], sh["bo"]
        rows = filling(n, nrows, sh["off"])
        for idx, combo in enumerate(_combos(_atoms(n, nrows, bo), sh["k"])):
            if idx % sh["parts"] == sh["i"]:
                yield _apply(n, rows, bo, combo)
    elif fam == "J":
        for text in MENU:
            for justify in J_JUSTIFY:
                for overflow in J_OVERFLOW:
                    for no_wrap in (False, True):
                        for expand in (False, True):
                            col = {"justify": justify, "overflow": overflow}
                            if no_wrap:
                                col["no_wrap"] = True
                            cols, row = [col], [text]
                            if sh["n"] == 2:
                                cols, row = [col, {}], [text, "ab cd"]
                            yield {"t": {"expand": True} if expand else {}, "c": cols, "rows": [row],
                                   "base_overflow": "fold"}
    elif fam == "P":
        n, nrows = sh["n"], sh["rows"]
        rows = filling(n, nrows, sh["off"])
        pads = [None] + dict(T_ATOMS)["padding"]
        catoms = [None] + [(c, name, val) for c in range(n) for name, val in P_CATOMS]
        idx = 0
        for padv in pads:
            for collapse in (False, True):
                for pad_edge in (True, False):
                    for ca in catoms:
                        idx += 1
                        if idx % sh["parts"] != sh["i"]:
                            continue
                        combo = []
                        if padv is not None:
                            combo.append((("t", "padding"), padv))
                        if collapse:
                            combo.append((("t", "collapse_padding"), True))
                        if not pad_edge:
                            combo.append((("t", "pad_edge"), False))
                        if ca is not None:
                            combo.append((("c", ca[0], ca[1]), ca[2]))
                        yield _apply(n, rows, "fold", combo)
    elif fam == "B":
        vec = B_VECTORS[sh["vec"]]
        for bo in ("ellipsis", "fold"):
            for off in (0, OFF2):
                yield {"t": dict(vec), "c": [{} for _ in range(6)], "rows": filling(6, 8, off), "base_overflow": bo}


# ----------------------------------------------------------------------------- execution
def _crash_key(exc):
    tb = traceback.extract_tb(exc.__traceback__)
    fr = tb[-1]
    for f in reversed(tb):
        if "/rich/" in f.filename:
            fr = f
            break
    return "crash/%s/%s:%s" % (type(exc).__name__, fr.filename.rsplit("/", 1)[-1], fr.name)


def run_case(desc, W, res, ctx="plain"):
    case = {"t": desc["t"], "c": desc["c"], "rows": desc["rows"], "base_overflow": desc.get("base_overflow", "ellipsis"),
            "W": W}
    if ctx != "plain":
        case["ctx"] = ctx
    res.evaluations += 1
    try:
        lines, avail = render_ctx(desc, W, ctx)
    except Exception as exc:       # noqa: any exception of the code under test is a finding
        res.violate(_crash_key(exc), case, "".join(traceback.format_exception_only(type(exc), exc)).strip())
        res.sig(("crash",))
        return
    nested = ctx.split(":")[0] in ("grid", "panel", "padding", "print")    # something around the table crops it
    tw = _topt(desc, "width")
    if nested and tw is not None and tw > avail:
        # a container crops a table that insists on being wider than the room: harness artefact
        res.sig((ctx, "cropped-by-container"), nontrivial=False)
        return
    v = judge(desc, avail, lines)
    if v.problems and ctx != "plain":
        # Only what the surroundings break is reported here: if the plain rendering of the same
        # table at the same width fails too, the failure belongs to (and is reported by) the plain
        # families, and a container cropping an over-wide table would only blur it.
        try:
            plain_lines = render_lines(desc, avail)
            plain = judge(desc, avail, plain_lines).problems
            if nested and not plain_lines:
                # the table renders no line at all (no rows, no header, no edge); what the container shows is
                # its own blank cell line, not a line of the table -- nothing of the table to judge
                res.sig((ctx, "empty-table"), nontrivial=False)
                return
            if nested and any(sw(l) > avail for l in plain_lines):
                # wider than the room it was given (C01's business, for this property the known
                # column-min_width finding): the container crops it -- artefact, as above
                res.sig((ctx, "cropped-by-container"), nontrivial=False)
                return
        except Exception:
            plain = [("crash", "")]
        if not plain:
            for key, detail in v.problems:
                res.violate(key + "@render-context", case, "context %s, table given %d cells: %s" % (ctx, avail, detail))
    else:
        for key, detail in v.problems:
            res.violate(key, case, detail)
    sig = v.sig if ctx == "plain" else (ctx,) + tuple(v.sig)[:1] + tuple(v.sig)[3:8]
    res.sig(sig, nontrivial=v.nontrivial)


def run_shard(sh, tier, seed):
    res = Result()
    for idx, desc in enumerate(_cases(sh, tier)):
        if deadline_passed():
            res.capped = True
            break
        res.count("tables")
        for W in widths_for(desc):
            run_case(desc, W, res, sh.get("ctx", "plain"))
        if idx % 1501 == 7:
            res.sample({"t": desc["t"], "c": desc["c"], "rows": desc["rows"], "base_overflow": desc["base_overflow"]},
                       limit=1)
    return res


def describe(tier, seed, res):
    units = _units(tier)
    utxt = "; ".join("%dx%d off%d %s k<=%d" % (n, r, off, bo, k) for n, r, off, bo, k in units)
    return {
        "rule": "family O (columns x rows, filling offset, column default overflow, deviation bound): %s. A filling puts "
                "menu %r, rotated by the offset, row-major into the cells. A deviation is one non-default table option "
                "(%s) or one non-default option of one column (%s); a ratio deviation switches expand on; table width = "
                "struct_min+3. All sets of <=k deviations are enumerated. Family A: every filling of the 1x1, 2x1 and 1x2 "
                "(columns x rows) tables over the full menu and of the 3x1 table%s over the reduced menu %r x 5 table "
                "option vectors x {ellipsis, fold}; family P (fold): %s x every padding value (default + %d) x collapse_padding x "
                "pad_edge x (no column option or one of %r on one column); family J: one-row tables, the first cell each of "
                "the %d menu entries x justify %r x overflow %r x no_wrap x expand, 1 column in every render context and "
                "2 columns %s; family C: the <=k-deviation tables of family O (fold, offset 0) for %s in every non-plain "
                "render context. Render contexts %r: plain; console.print(table, no_wrap=True); console.print(table, "
                "justify='full', overflow='crop'); the table as the only cell of an outer Table.grid whose column has "
                "no_wrap=True / width=W / ratio=1 (grid expanded); inside Panel; inside Padding((1,2,0,1)); Console(width=W).print(table) read back from the file (final crop). The outer "
                "width is chosen so that the table is given exactly W cells (grid:no_wrap: the width is read from the "
                "outer lines), the container's padding is removed and all clauses apply with that width; a failure is "
                "reported under key+'@render-context' only when the plain rendering at the same width passes%s. "
                "Every console width in [struct_min, struct_min+10] + {40, 80} (tables with a fixed width: console widths "
                "width-1, width, width+1, width+7, 80). A case is non-trivial when the expansion clause or an exact "
                "fold-content clause was judged or some row needed more than one line; distinct = distinct outcome "
                "signatures (box kind, columns, rows, slack class, clauses judged, border lines, wrapped, ample, title)."
                % (utxt, MENU, ", ".join(a for a, _ in T_ATOMS), ", ".join(a for a, _ in C_ATOMS),
                   " and the 2x2 table" if tier == "thorough" else "", A_MENU,
                   "2x1, 3x1, 2x2 offset 0" if tier == "quick" else "2x1, 3x1, 2x2, 3x2, 4x1 offsets 0 and 3",
                   len(dict(T_ATOMS)["padding"]), P_CATOMS, len(MENU), J_JUSTIFY, J_OVERFLOW,
                   "plain only" if tier == "quick" else "in every context",
                   ", ".join("%dx%d k<=%d" % u for u in _ctx_units(tier)), CONTEXTS,
                   "; family B: 6 columns x 8 rows x 20 option vectors x 2 fillings x {ellipsis, fold}" if tier == "thorough"
                   else "; plus rotating slice %d of %d of the three-deviation vectors on the 2x2 and 3x1 shapes "
                        "(fold, offset 0)" % (seed % SLICES, SLICES)),
        "assumptions": [
            "cell widths = Rich's CELL_WIDTHS data scanned linearly (vf/width.py)",
            "for boxes without visible column dividers (None, SIMPLE) the column spans are the implementation's own width vector (checked to add up to the line width)",
            "struct_min = per column the widest unbreakable piece (2 for wide characters, the whole line for no_wrap, 5 for the nested Panel/Table, explicit width/min_width) + full horizontal padding + borders; below it a case is only executed",
            "exact fold content is demanded where the column span read from the output is wide enough for the cell plus full padding, and, whatever the span, at or above ample_min (columns x (largest need + padding + 1) + borders, no ratio columns) for every cell whose need is within the column's own width cap (max_width / width), if any; there an uncapped fold column must also be at least as wide as its need",
            "a table width option larger than the console width is not judged for expansion",
            "a table that renders no line at all (no rows, no header, no edge) is only executed in nested render contexts: the blank line shown there is the container's own cell line",
            "in nested render contexts a table that is wider than the room it was given (fixed width option, or the known column-min_width finding) is cropped by the container: such cases are only executed",
            "nested contexts: tables with a visible right border are un-padded by stripping trailing blanks, the others are cut at the implementation's own width vector (so the equal-width clause is vacuous for them there; it is judged in the plain and print-option contexts)",
        ],
        "coverage": {"tables": res.counters.get("tables", 0)},
    }


def replay(case):
    res = Result()
    desc = {"t": case["t"], "c": case["c"], "rows": case["rows"], "base_overflow": case.get("base_overflow", "ellipsis")}
    run_case(desc, case["W"], res, case.get("ctx", "plain"))
    return [(k, v[2]) for k, v in sorted(res.violations.items())]
