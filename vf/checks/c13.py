"""C13 -- Cell-width arithmetic and line shaping are exact and history-independent.

(a) every code point: get_character_cell_size vs a linear scan of the table, in
    ascending and then descending order (the memo cache is full and evicting),
(b) cell_len / set_cell_size / chop_cells on every string over a mixed-width
    alphabet up to a length bound x every target size,
(c) BFS over cache histories: cell_len with a 2-entry LRUCache, all measurement
    sequences until the canonical cache-state space closes,
(d) every list of <=3 styled segments x length x pad x pad-style x newline flag
    through split_and_crop_lines / adjust_line_length / set_shape / split_lines /
    simplify,
(e) two threads measuring at once on COLD module state (every execution in a fork of a zygote that never
    called rich.cells), every interleaving of the executed lines with <= bound preemptions.
Callers own what they are handed: every returned list is clobbered after it was judged, and the same call is
made again (parts b, c2, d).
"""
import itertools
import sys

from ..par import Result, deadline_passed
from ..width import cw, sw, table, table_problems

ID = "C13"
LEVEL = "exploration"
CAP_S = {"quick": 240, "thorough": 1500}

SIGMA = ["a", "あ", "́", " "]


def _maxlen(tier):
    return 6 if tier == "quick" else 8


def plan(tier, seed):
    shards = [{"part": "a", "lo": lo, "hi": min(lo + 0x11000, 0x110000)}
              for lo in range(0, 0x110000, 0x11000)]
    nb = 16 if tier == "quick" else 48
    shards += [{"part": "b", "i": i, "n": nb} for i in range(nb)]
    shards += [{"part": "blong"}, {"part": "c"}]
    shards += [{"part": "c2", "i": i, "n": 8} for i in range(8)]
    nd = 16 if tier == "quick" else 32
    shards += [{"part": "d", "i": i, "n": nd} for i in range(nd)]
    for hid in E_ORDER:
        ne = 4 if tier == "quick" else 16
        shards += [{"part": "e", "h": hid, "bound": _e_bound(hid, tier), "i": i, "n": ne} for i in range(ne)]
    return shards


# ------------------------------------------------------------------ (a)
def _part_a(sh, res):
    from rich.cells import get_character_cell_size, _get_codepoint_cell_size
    for p in table_problems():
        res.violate("table/" + p.split(" at ")[0].replace(" ", "-"), {"part": "a"}, p)
    t = table()
    _get_codepoint_cell_size.cache_clear()
    for direction, rng in (("up", range(sh["lo"], sh["hi"])),
                           ("down", range(sh["hi"] - 1, sh["lo"] - 1, -1))):
        for cp in rng:
            got = get_character_cell_size(chr(cp))
            res.evaluations += 1
            if got != t[cp]:
                res.violate("codepoint-width/%s" % direction,
                            {"part": "a", "cp": cp, "dir": direction, "lo": sh["lo"], "hi": sh["hi"]},
                            "U+%04X: got %r, table scan says %r" % (cp, got, t[cp]))
    for wv in (0, 1, 2):
        n = sum(1 for cp in range(sh["lo"], sh["hi"]) if t[cp] == wv)
        if n:
            res.sig(("a-width", wv, sh["lo"]))
    res.sample({"part": "a", "range": [sh["lo"], sh["hi"]]}, limit=1)


# ------------------------------------------------------------------ (b)
def check_string(s, res, sizes, widths):
    from rich.cells import cell_len, set_cell_size, chop_cells
    ref = sw(s)
    got = cell_len(s)
    res.evaluations += 1
    if got != ref:
        res.violate("cell_len/sum", {"part": "b", "s": s}, "cell_len=%r reference=%r" % (got, ref))
    got2 = cell_len(s)
    if got2 != ref:
        res.violate("cell_len/second-call", {"part": "b", "s": s}, "second call %r reference %r" % (got2, ref))
    for n in sizes:
        out = set_cell_size(s, n)
        res.evaluations += 1
        err = _judge_set_cell_size(s, n, out)
        if err:
            res.violate("set_cell_size/" + err[0], {"part": "b", "s": s, "n": n}, "%r -> %r: %s" % (s, out, err[1]))
        res.sig(("scs", ref < n, ref == n, out.endswith(" ") and not s.endswith(" ")), nontrivial=ref != n)
    for w in widths:
        raw = chop_cells(s, w)
        pieces = list(raw)
        res.evaluations += 1
        if "".join(pieces) != s:
            res.violate("chop_cells/concat", {"part": "b", "s": s, "w": w}, "%r -> %r" % (s, pieces))
        elif any(sw(p) > w for p in pieces):
            res.violate("chop_cells/fit", {"part": "b", "s": s, "w": w}, "%r -> %r" % (s, pieces))
        # the caller owns what it was handed: clobbering it must not change what the next caller gets
        _clobber(raw)
        again = list(chop_cells(s, w))
        if again != pieces:
            res.violate("chop_cells/result-aliased", {"part": "b", "s": s, "w": w},
                        "first call %r; after the caller changed its list the same call gives %r" % (pieces, again))
        res.sig(("chop", min(len(pieces), 4)), nontrivial=len(pieces) > 1)


def _clobber(obj):
    """What a caller may do with a returned list: empty it (recursively) and leave junk in it."""
    if isinstance(obj, list):
        for x in obj:
            _clobber(x)
        del obj[:]
        obj.append("\x00clobbered")


def _judge_set_cell_size(s, n, out):
    if sw(out) != n:
        return ("exact-cells", "result has %d cells, want %d" % (sw(out), n))
    k = 0
    while k < len(out) and k < len(s) and out[k] == s[k]:
        k += 1
    rest = out[k:]
    if rest.strip(" "):
        return ("prefix-then-spaces", "after the common prefix comes %r" % rest)
    # out == s[:k] + spaces.  Any longer common prefix was taken, so `rest` is what was added.
    if sw(s) >= n and len(rest) > 1:
        return ("cropped-too-much", "%d spaces added although the text was wide enough" % len(rest))
    if sw(s) >= n and len(rest) == 1:
        # one space may replace a halved wide character only
        j = k
        while j < len(s) and cw(s[j]) == 0:
            j += 1
        if j >= len(s) or cw(s[j]) != 2:
            return ("cropped-too-much", "a space replaced %r which is not a wide character" % s[k:k + 1])
    return None


def _strings(maxlen):
    for L in range(maxlen + 1):
        for tup in itertools.product(SIGMA, repeat=L):
            yield "".join(tup)


def _part_b(sh, tier, res):
    sizes = range(0, 15)
    widths = range(2, 9)
    for idx, s in enumerate(_strings(_maxlen(tier))):
        if idx % sh["n"] != sh["i"]:
            continue
        if deadline_passed():
            res.capped = True
            break
        check_string(s, res, sizes, widths)
        if idx % 997 == 0:
            res.sample({"part": "b", "s": s})


def _long_strings():
    pat = "abあ ćいd  うe"
    for L in range(60, 81):
        for rot in range(len(pat)):
            p = pat[rot:] + pat[:rot]
            yield (p * 8)[:L]


def _part_blong(res):
    for s in _long_strings():
        check_string(s, res, list(range(0, 101, 7)) + [sw(s) - 1, sw(s), sw(s) + 1, 100], [2, 3, 8, 64, 65])
    res.sample({"part": "blong", "n": sum(1 for _ in _long_strings())}, limit=1)


# ------------------------------------------------------------------ (c)
C_STRINGS = ["ab", "あ", "á", "", "ああ", "cd"]


def _run_history(hist):
    """Replays a measurement history on a fresh 2-entry cache; returns (results, canon)."""
    from rich.cells import cell_len, _get_codepoint_cell_size
    from rich._lru_cache import LRUCache
    _get_codepoint_cell_size.cache_clear()
    cache = LRUCache(2)
    out = []
    for i in hist:
        out.append(cell_len(C_STRINGS[i], cache))
    cps = frozenset(ord(c) for i in hist for c in C_STRINGS[i] if not 31 < ord(c) < 127)
    return out, (tuple(cache.items()), cps)


def _part_c(tier, res):
    import collections
    maxdepth = 5 if tier == "quick" else 7
    _, k0 = _run_history([])
    seen = {k0}
    frontier = collections.deque([[]])
    transitions = 0
    maxd = 0
    while frontier:
        hist = frontier.popleft()
        if len(hist) >= maxdepth:
            res.count("c_frontier_at_depth_cap")
            continue
        for ev in range(len(C_STRINGS)):
            h2 = hist + [ev]
            out, canon = _run_history(h2)
            transitions += 1
            res.evaluations += 1
            want = sw(C_STRINGS[ev])
            if out[-1] != want:
                res.violate("cache-history/result-changed", {"part": "c", "history": h2},
                            "history %r: cell_len(%r)=%r, reference %r" % (h2, C_STRINGS[ev], out[-1], want))
            res.sig(("c", len(canon[0]), len(canon[1]), ev in hist), nontrivial=ev in hist)
            if canon not in seen:
                seen.add(canon)
                frontier.append(h2)
                maxd = max(maxd, len(h2))
    res.counters["cache_states"] = len(seen)
    res.counters["cache_transitions"] = transitions
    res.counters["max_cache_depth"] = maxd
    res.sample({"part": "c", "history": [C_STRINGS[i] for i in (0, 1, 4, 0)]}, limit=1)


# ------------------------------------------------------------------ (c2)
# histories over the SHARED default cache: every function of rich.cells that could write to it
C2_STRINGS = ["abcde", "ああ", "aあb", "áb", "ab", ""]


def _c2_events():
    ev = [("len", s) for s in C2_STRINGS]
    for s in C2_STRINGS[:4]:
        for w in (2, 3):
            for pos in (0, 1, 3):
                ev.append(("chop", s, w, pos))
        for n in (1, 3):
            ev.append(("size", s, n))
    return ev


def _default_cache():
    from rich.cells import cell_len
    return cell_len.__defaults__[0]


def _run_history2(hist, res=None):
    """Replays a history on the emptied default cache; after every event every string seen so far
    (menu strings and produced pieces) is re-measured. -> (violations, canon)"""
    from rich.cells import cell_len, chop_cells, set_cell_size, _get_codepoint_cell_size
    import rich.cells
    cache = _default_cache()
    cache.clear()
    for fn in list(vars(rich.cells).values()):      # every memo the module keeps, whatever it is called
        if callable(getattr(fn, "cache_clear", None)):
            fn.cache_clear()
    seen = list(C2_STRINGS)
    vio = []
    for ev in hist:
        if ev[0] == "len":
            got = cell_len(ev[1])
            if got != sw(ev[1]):
                vio.append(("cache-history/result-changed/cell_len", "cell_len(%r)=%r reference %r" % (ev[1], got, sw(ev[1]))))
        elif ev[0] == "chop":
            raw = chop_cells(ev[1], ev[2], ev[3])
            pieces = list(raw)
            if "".join(pieces) != ev[1]:
                vio.append(("cache-history/chop_cells/concat", "%r -> %r" % (ev, pieces)))
            seen += [p for p in pieces if p not in seen]
            _clobber(raw)
        else:
            out = set_cell_size(ev[1], ev[2])
            err = _judge_set_cell_size(ev[1], ev[2], out)
            if err:
                vio.append(("cache-history/set_cell_size/" + err[0], "%r -> %r: %s" % (ev, out, err[1])))
            if out not in seen:
                seen.append(out)
        for t in seen:
            got = cell_len(t)
            if got != sw(t):
                vio.append(("cache-history/result-changed/after-%s" % ev[0],
                            "after %r: cell_len(%r)=%r reference %r" % (ev, t, got, sw(t))))
                break
    canon = (tuple(sorted((k, v) for k, v in cache.items())),
             tuple(sorted(set(map(repr, (e for e in hist if e[0] != "len"))))))
    return vio, canon


def _part_c2(sh, tier, res):
    import collections
    maxdepth = 3 if tier == "quick" else 4
    events = _c2_events()
    first = events[sh["i"]::sh["n"]]
    seen = set()
    frontier = collections.deque([[e] for e in first])
    transitions = 0
    while frontier:
        hist = frontier.popleft()
        vio, canon = _run_history2(hist)
        transitions += 1
        res.evaluations += 1
        for key, detail in vio:
            res.violate(key, {"part": "c2", "history": [list(e) for e in hist]}, detail)
        res.sig(("c2", hist[-1][0], len(canon[0]) if len(canon[0]) < 6 else 6), nontrivial=len(hist) > 1)
        if vio or len(hist) >= maxdepth or canon in seen:
            continue
        seen.add(canon)
        if deadline_passed():
            res.capped = True
            break
        for ev in events:
            frontier.append(hist + [ev])
    _default_cache().clear()
    res.count("cache_states", len(seen))
    res.count("cache_transitions", transitions)
    if sh["i"] == 0:
        res.sample({"part": "c2", "history": [["chop", "abcde", 3, 3], ["len", "ab"]]}, limit=1)


# ------------------------------------------------------------------ (d)
D_TEXTS = ["", "a", "ab", "あ", "a\nb", "\n", "あ\nb", "é", "a\x0cb\nc", "a\r\nb", "\u2028\n"]  # the last three: line boundaries of str.splitlines that are not "\\n"


def _styles():
    from rich.style import Style
    return {"N": None, "S1": Style(bold=True), "S2": Style(color="red"), "S3": Style(bgcolor="blue")}


def _seg_menu():
    menu = []
    for t in D_TEXTS:
        for st in ("N", "S1", "S2"):
            menu.append((t, st, False))
    menu.append(("\x1b[1A", "N", True))
    menu.append(("\n", "N", True))       # control segment whose text is a newline: must not split
    return menu


def _seg_lists(tier):
    menu = _seg_menu()
    yield ()
    for m in menu:
        yield (m,)
    for p in itertools.product(menu, repeat=2):
        yield p
    # length 3: full product is 26^3=17.5k lists; quick takes a reduced menu for the third
    small = [m for m in menu if m[0] in ("a", "あ", "a\nb", "\n", "\x1b[1A") and m[1] in ("N", "S1")] \
        if tier == "quick" else menu
    for p in itertools.product(menu, menu, small):
        yield p


def _flatten(segs, styles):
    """-> list of (char, stylename, is_control) cells; control segments are one item."""
    out = []
    for text, st, ctl in segs:
        if ctl:
            out.append((text, st, True))
        else:
            for ch in text:
                out.append((ch, st, False))
    return out


def _flatten_real(line):
    out = []
    for seg in line:
        if seg.is_control:
            out.append((seg.text, seg.style, True))
        else:
            for ch in seg.text:
                out.append((ch, seg.style, False))
    return out


def _split_ref(desc):
    """Reference line splitting on the segment descriptions: cut at every newline
    of a non-control segment. A trailing line exists iff something (even an
    empty or control segment) follows the last newline -- that is how the
    statement's "lines" are delimited; an empty trailing remainder is no line.
    -> (lines of cells, ended_by_newline flags)"""
    lines, flags = [], []
    cur, cur_has_segment = [], False
    for text, st, ctl in desc:
        if ctl:
            cur.append((text, st, True))
            cur_has_segment = True
        elif "\n" not in text:
            cur.extend((ch, st, False) for ch in text)
            cur_has_segment = True
        else:
            parts = text.split("\n")
            for i, part in enumerate(parts):
                cur.extend((ch, st, False) for ch in part)
                if part:
                    cur_has_segment = True
                if i < len(parts) - 1:
                    lines.append(cur)
                    flags.append(True)
                    cur, cur_has_segment = [], False
    if cur_has_segment:
        lines.append(cur)
        flags.append(False)
    return lines, flags


def _judge_line(inp, out, length, pad, padstyle, styles, cropping=True):
    """inp: reference cells of one input line (stylenames); out: real cells (Style objects).
    Returns (clause, message) or None."""
    def sname(st):
        return styles[st]
    in_vis = [(c, sname(s)) for c, s, ctl in inp if not ctl]
    out_vis = [(c, s) for c, s, ctl in out if not ctl]
    in_ctl = [c for c, s, ctl in inp if ctl]
    out_ctl = [c for c, s, ctl in out if ctl]
    # controls: nothing invented, order kept
    it = iter(in_ctl)
    if not all(any(c == d for d in it) for c in out_ctl):
        return ("control-invented", "controls %r not a subsequence of %r" % (out_ctl, in_ctl))
    win = sum(cw(c) for c, _ in in_vis)
    wout = sum(cw(c) for c, _ in out_vis)
    k = 0
    while k < len(out_vis) and k < len(in_vis) and out_vis[k] == in_vis[k]:
        k += 1
    rest = out_vis[k:]
    if any(c != " " for c, _ in rest):
        return ("chars-or-styles-changed", "after common prefix of %d cells comes %r; input %r" % (k, rest, in_vis))
    if win < length:
        if k != len(in_vis) and not all(cw(c) == 0 for c, _ in in_vis[k:]):
            return ("chars-dropped", "short line lost characters: in %r out %r" % (in_vis, out_vis))
        if pad:
            if wout != length:
                return ("exact-length", "padded line has %d cells, want %d" % (wout, length))
            if any(s != padstyle for _, s in rest):
                return ("pad-style", "padding carries %r, requested %r" % ([s for _, s in rest], padstyle))
        else:
            if rest:
                return ("unrequested-pad", "pad=False but %d cells appended" % len(rest))
    elif win == length:
        if k != len(in_vis) and not all(cw(c) == 0 for c, _ in in_vis[k:]):
            return ("chars-dropped", "exact line lost characters: in %r out %r" % (in_vis, out_vis))
        if rest:
            return ("unrequested-pad", "exact line got %d extra cells" % len(rest))
    else:
        if not cropping:
            return None
        if wout != length:
            return ("exact-length", "cropped line has %d cells, want %d" % (wout, length))
        if len(rest) > 1:
            return ("cropped-too-much", "%d spaces after crop" % len(rest))
        if len(rest) == 1:
            j = k
            while j < len(in_vis) and cw(in_vis[j][0]) == 0:
                j += 1
            if j >= len(in_vis) or cw(in_vis[j][0]) != 2:
                return ("cropped-too-much", "space replaced a non-wide character")
    return None


def check_segments(desc, length, pad, padname, incl, res, styles=None):
    from rich.segment import Segment
    styles = styles or _styles()
    segs = [Segment(t, styles[st], ctl) for t, st, ctl in desc]
    cells = _flatten(desc, styles)
    ref_lines, flags = _split_ref(desc)
    padstyle = styles[padname]
    case = {"part": "d", "segs": [list(d) for d in desc], "length": length, "pad": pad,
            "padstyle": padname, "incl": incl}

    # split_lines
    got = list(Segment.split_lines(list(segs)))
    res.evaluations += 1
    # an empty trailing input line is not yielded; reference lines with no cells and no newline never exist
    if len(got) != len(ref_lines):
        res.violate("split_lines/line-count", dict(case, fn="split_lines"),
                    "got %d lines, reference %d: %r" % (len(got), len(ref_lines), got))
    else:
        for gl, rl in zip(got, ref_lines):
            g = _flatten_real(gl)
            r = [(c, styles[s], ctl) for c, s, ctl in rl]
            if g != r:
                res.violate("split_lines/content", dict(case, fn="split_lines"), "line %r reference %r" % (g, r))
                break
    _clobber(got)       # callers own returned lists (the same arguments come round again in the loops)

    # split_and_crop_lines -- judged twice: lines copied as they are produced (a streaming consumer such as
    # Console.print) and all lines collected first (Console.render_lines does list(...)): a line that is
    # still the generator's work buffer looks right while streaming and wrong once collected
    for mode in ("streamed", "collected"):
        gen = Segment.split_and_crop_lines(list(segs), length, style=padstyle, pad=pad, include_new_lines=incl)
        raw = []
        if mode == "streamed":
            got = []
            for l in gen:
                raw.append(l)
                got.append(list(l))
        else:
            raw = list(gen)
            got = [list(l) for l in raw]
        _clobber(raw)
        res.evaluations += 1
        sfx = "" if mode == "streamed" else "/collected"
        kcase = dict(case, fn="split_and_crop_lines", mode=mode)
        if len(got) != len(ref_lines):
            res.violate("split_and_crop_lines/line-count" + sfx, kcase,
                        "got %d lines, reference %d: %r" % (len(got), len(ref_lines), got))
            continue
        for gl, rl, nl in zip(got, ref_lines, flags):
            g = _flatten_real(gl)
            if incl and nl:
                if not g or g[-1][0] != "\n" or g[-1][2]:
                    res.violate("split_and_crop_lines/newline-missing" + sfx, kcase, repr(got))
                    break
                g = g[:-1]
            if any(c == "\n" and not ctl for c, _, ctl in g):
                res.violate("split_and_crop_lines/stray-newline" + sfx, kcase, repr(got))
                break
            err = _judge_line(rl, g, length, pad, padstyle, styles)
            if err:
                res.violate("split_and_crop_lines/" + err[0] + sfx, kcase, err[1])
                break
    cropped = any(sum(cw(c) for c, _, ctl in rl if not ctl) > length for rl in ref_lines)
    short = any(sum(cw(c) for c, _, ctl in rl if not ctl) < length for rl in ref_lines)
    res.sig(("d", len(ref_lines) if len(ref_lines) < 3 else 3, cropped, short, pad, padname != "N", incl),
            nontrivial=cropped or short)

    # adjust_line_length + set_shape on the reference lines (fed as real segment lists)
    real_lines = list(Segment.split_lines(list(segs)))
    if len(real_lines) == len(ref_lines):
        for rl_real, rl in zip(real_lines, ref_lines):
            out = Segment.adjust_line_length(list(rl_real), length, style=padstyle, pad=pad)
            res.evaluations += 1
            err = _judge_line(rl, _flatten_real(out), length, pad, padstyle, styles)
            _clobber(out)
            if err:
                res.violate("adjust_line_length/" + err[0], dict(case, fn="adjust_line_length"), err[1])
                break
        for height in (None, len(real_lines), len(real_lines) + 1):
            shaped = Segment.set_shape([list(l) for l in real_lines], length, height, style=padstyle)
            res.evaluations += 1
            # heights below the number of lines are outside the statement (no caller crops rows this way)
            want_h = len(real_lines) if height is None else height
            if len(shaped) != want_h:
                res.violate("set_shape/height", dict(case, fn="set_shape", height=height),
                            "got %d lines want %d" % (len(shaped), want_h))
                continue
            for i, line in enumerate(shaped):
                rl = ref_lines[i] if i < len(ref_lines) else []
                err = _judge_line(rl, _flatten_real(line), length, True, padstyle, styles)
                if err:
                    res.violate("set_shape/" + err[0], dict(case, fn="set_shape", height=height), err[1])
                    break

    # simplify keeps the flattened (char, style, control) sequence
    simp = list(Segment.simplify(list(segs)))
    res.evaluations += 1
    a = [x for x in _flatten_real(simp) if x[0] != ""]
    b = [(c, styles[s], ctl) for c, s, ctl in cells if c != ""]
    if a != b:
        lost_control = [x for x in b if x[2]] != [x for x in a if x[2]]
        res.violate("simplify/control-merged-into-text" if lost_control else "simplify/sequence-changed",
                    dict(case, fn="simplify"), "simplify %r -> %r" % (segs, simp))


def _part_d(sh, tier, res):
    styles = _styles()
    lengths = range(0, 7)
    for idx, desc in enumerate(_seg_lists(tier)):
        if idx % sh["n"] != sh["i"]:
            continue
        if deadline_passed():
            res.capped = True
            break
        for length in lengths:
            for pad in (True, False):
                for padname in (("N", "S3") if pad else ("N",)):
                    for incl in (False, True):
                        check_segments(desc, length, pad, padname, incl, res, styles)
        if idx % 499 == 0:
            res.sample({"part": "d", "segs": [list(d) for d in desc]})



# ------------------------------------------------------------------ (e) threads on cold module state (E3)
# Two real threads measure text at the same time.  Every execution runs in a fork of a zygote that imported
# rich.cells but never called it (vf/cold.py), so whatever the module builds lazily -- the code point memo,
# the measured-string cache, any index derived from the table on first use -- is cold, and both threads can
# be "the first caller".  vf/sched.py enumerates every interleaving of the executed lines of rich.cells and
# rich._lru_cache with <= bound preemptions.  Oracle: each thread's result, and the same question asked again
# after both finished (what stays in the memos), equal the linear table scan.
E_OPS = {
    "len-a": ("cell_len", "あaい"),
    "len-b": ("cell_len", "́bう😽"),
    "len-same": ("cell_len", "ああ"),
    "size": ("set_cell_size", "あいう", 3),
    "chop": ("chop_cells", "あいうa", 3),
    "char": ("get_character_cell_size", "😽"),
    "char2": ("get_character_cell_size", "́"),
}
E_HARNESS = {
    # id: (ops of thread A, ops of thread B, prefill the measured-string cache to capacity first)
    "first-lookups": (["len-a"], ["len-b"], False),
    "same-string": (["len-same"], ["len-same"], False),
    "char-vs-len": (["char"], ["len-a"], False),
    "size-vs-chop": (["size"], ["chop"], False),
    "zero-vs-wide": (["char2"], ["char"], False),
    "full-cache": (["len-a"], ["len-b"], True),
    "two-each": (["char", "len-b"], ["len-a", "char2"], False),
}
E_ORDER = ("first-lookups", "char-vs-len", "zero-vs-wide", "same-string", "size-vs-chop", "full-cache", "two-each")
E_MAX_EXECS = 8000          # per shard; a complete bound-2 harness has < 25,000 schedules over 16 shards
E_STOP_AFTER_VIOLATIONS = 8


def _e_bound(hid, tier):
    # bound 2 is ~n^2/2 schedules of ~45 ms for n choice points: affordable for the three short harnesses
    if tier == "thorough" and hid in ("zero-vs-wide", "char-vs-len", "same-string"):
        return 2
    return 1


def _e_setup():
    """in the zygote: scheduler installed, LINE events on for every code object of the modules under test;
    nothing here measures a character"""
    import rich.cells
    import rich._lru_cache
    from .. import sched
    sched.install()
    for mod in (rich.cells, rich._lru_cache):
        for co in sched._code_objects(mod):
            sys.monitoring.set_local_events(sched.TOOL, co, sys.monitoring.events.LINE)
    sched.SKIP_CODES = frozenset()


def _e_call(op):
    import rich.cells
    out = getattr(rich.cells, op[0])(*op[1:])
    return list(out) if isinstance(out, list) else out


def _e_ref(op):
    if op[0] == "cell_len":
        return sw(op[1])
    if op[0] == "get_character_cell_size":
        return cw(op[1])
    return None


def _e_judge_value(op, got):
    """-> error text or None"""
    if isinstance(got, BaseException):
        return "raised %r" % (got,)
    if op[0] in ("cell_len", "get_character_cell_size"):
        return None if got == _e_ref(op) else "%s(%r) = %r, table scan says %r" % (op[0], op[1], got, _e_ref(op))
    if op[0] == "set_cell_size":
        err = _judge_set_cell_size(op[1], op[2], got)
        return None if err is None else "set_cell_size(%r, %d) = %r: %s" % (op[1], op[2], got, err[1])
    if "".join(got) != op[1]:
        return "chop_cells(%r, %d) = %r does not concatenate to the text" % (op[1], op[2], got)
    if any(sw(p) > op[2] for p in got):
        return "chop_cells(%r, %d) = %r has a piece wider than %d" % (op[1], op[2], got, op[2])
    return None


def _e_make(hid):
    ops_a, ops_b, prefill = E_HARNESS[hid]

    def make(s):
        if prefill:
            import rich.cells
            cache = rich.cells.cell_len.__defaults__[0]
            n = getattr(cache, "cache_size", 4096)
            for i in range(n):
                cache["p%05d" % i] = 6          # ASCII keys with their true widths: the table path stays cold
        out = {"A": [], "B": []}

        def runner(tid, ops):
            def run():
                for name in ops:
                    try:
                        out[tid].append(_e_call(E_OPS[name]))
                    except Exception as e:          # judged, not propagated: the next op still runs
                        out[tid].append(e)
            return run

        def observe():
            again = {}
            for tid, ops in (("A", ops_a), ("B", ops_b)):
                again[tid] = []
                for name in ops:
                    try:
                        again[tid].append(_e_call(E_OPS[name]))
                    except Exception as e:
                        again[tid].append(e)
            return {"got": out, "again": again}
        return {"A": runner("A", ops_a), "B": runner("B", ops_b)}, observe
    return make


def _e_child(hid, prefix):
    from .. import sched, cold
    s, obs = sched.run_once(_e_make(hid), prefix, "line", 0)
    ops_a, ops_b, _ = E_HARNESS[hid]
    vio = []
    if s.problem:
        vio.append(("threads/%s" % s.problem.split(":")[0], s.problem))
    for tid, e in s.errors:
        vio.append(("threads/exception/%s" % type(e).__name__, "thread %s raised %r" % (tid, e)))
    for tid, ops in (("A", ops_a), ("B", ops_b)):
        got = obs["got"][tid]
        if len(got) != len(ops) and not s.problem:
            vio.append(("threads/no-result", "thread %s finished %d of %d operations" % (tid, len(got), len(ops))))
        for name, g in zip(ops, got):
            err = _e_judge_value(E_OPS[name], g)
            if err:
                kind = "exception" if isinstance(g, BaseException) else "wrong-result"
                vio.append(("threads/%s/%s" % (kind, E_OPS[name][0]), "thread %s: %s" % (tid, err)))
        for name, g in zip(ops, obs["again"][tid]):
            err = _e_judge_value(E_OPS[name], g)
            if err:
                vio.append(("threads/memoised-wrong/%s" % E_OPS[name][0],
                            "asked again after both threads finished: %s" % err))
    dev = s.deviations_before(len(s.choices))
    sig = ("e", hid, min(dev, 3), bool(vio))
    return cold.record_of(s, sig=sig, vio=vio)


def _part_e(sh, tier, res):
    from .. import cold
    hid, bound = sh["h"], sh["bound"]
    zy = cold.Zygote("vf.checks.c13", "_e_setup")
    bad = [0]

    def on_exec(rec):
        res.evaluations += 2 * (len(E_HARNESS[hid][0]) + len(E_HARNESS[hid][1]))
        res.sig(rec["sig"], nontrivial=rec["sig"][2] > 0)
        res.count("choice_points", len(rec["choices"]))
        if rec["vio"]:
            bad[0] += 1
            ch = list(rec["choices"])
            while ch and ch[-1] == 0:
                ch.pop()
            for key, detail in rec["vio"]:
                res.violate(key, {"part": "e", "h": hid, "choices": ch}, detail)
        return bad[0] < E_STOP_AFTER_VIOLATIONS
    try:
        st = cold.explore_cold(lambda prefix: zy.call("_e_child", hid, prefix), bound, on_exec,
                               stop=deadline_passed, max_execs=E_MAX_EXECS, shard=(sh["i"], sh["n"]))
    finally:
        zy.close()
    res.count("schedules", st["executions"])
    res.counters["max_choice_points_per_schedule"] = max(res.counters.get("max_choice_points_per_schedule", 0),
                                                         st["max_choice_points"])
    if not st["complete"] and not bad[0]:
        res.capped = True
    if sh["i"] == 0:
        res.count("threads_harness:%s:b%d" % (hid, bound))
        res.sample({"part": "e", "harness": hid, "A": E_HARNESS[hid][0], "B": E_HARNESS[hid][1], "bound": bound}, limit=1)


def _replay_e(case, res):
    from .. import cold
    zy = cold.Zygote("vf.checks.c13", "_e_setup")
    try:
        rec = zy.call("_e_child", case["h"], list(case["choices"]))
    finally:
        zy.close()
    for key, detail in rec["vio"]:
        res.violate(key, case, detail)


# ------------------------------------------------------------------ protocol
def run_shard(sh, tier, seed):
    res = Result()
    p = sh["part"]
    if p == "a":
        _part_a(sh, res)
    elif p == "b":
        _part_b(sh, tier, res)
    elif p == "blong":
        _part_blong(res)
    elif p == "c":
        _part_c(tier, res)
    elif p == "c2":
        _part_c2(sh, tier, res)
    elif p == "d":
        _part_d(sh, tier, res)
    elif p == "e":
        _part_e(sh, tier, res)
    return res


def describe(tier, seed, res):
    return {
        "rule": "(a) all 1,114,112 code points twice (ascending, descending) against a linear table scan; "
                "(b) all strings over {a, U+3042, U+0301, space} of length <=%d x set_cell_size n=0..14 x chop_cells w=2..8, "
                "plus 252 strings of 60..80 chars; (c) BFS over cell_len histories on a 2-entry LRUCache over 6 strings, "
                "dedup on (ordered cache contents, measured non-ASCII code points); (c2) BFS over histories of "
                "{cell_len, chop_cells(s, w, position), set_cell_size} on the shared default cache (depth 3 quick / 4 thorough), "
                "every string seen so far re-measured after every event; (d) all lists of <=3 segments over "
                "8 texts x 3 styles + 2 control segments (third position reduced in quick) x length 0..6 x pad x pad style x "
                "include_new_lines; every returned list is clobbered after judging and chop_cells is called again (aliasing); "
                "(e) E3 on cold module state: harnesses %s, two real threads calling cell_len / get_character_cell_size / "
                "set_cell_size / chop_cells on wide and zero-width text, every execution in a fork of a zygote that never "
                "called rich.cells, all interleavings of executed lines of rich.cells + rich._lru_cache with <=1 preemption "
                "(<=2 thorough for the three short harnesses), results and re-queries against the table scan. A case is non-trivial when the operation actually crops, pads, splits, or re-measures "
                "a string measured earlier; distinct = distinct outcome signatures." % (_maxlen(tier), ", ".join(E_ORDER)),
        "assumptions": [
            "width oracle = Rich's CELL_WIDTHS data scanned linearly (table content is trusted, lookup/arithmetic is judged)",
            "set_cell_size is required to keep the longest prefix that fits (a single space only where a wide character was halved)",
            "zero-width characters cut off at a crop boundary may be kept or dropped",
        ],
        "coverage": {"states": res.counters.get("cache_states", 0),
                     "transitions": res.counters.get("cache_transitions", 0)},
    }


def replay(case):
    res = Result()
    p = case.get("part")
    if p == "a":
        _part_a({"lo": case.get("lo", case.get("cp", 0)), "hi": case.get("hi", case.get("cp", 0) + 1)}, res)
    elif p == "b":
        check_string(case["s"], res, [case["n"]] if "n" in case else range(0, 15),
                     [case["w"]] if "w" in case else range(2, 9))
    elif p == "c":
        out, _ = _run_history(case["history"])
        for i, o in zip(case["history"], out):
            if o != sw(C_STRINGS[i]):
                res.violate("cache-history/result-changed", case, "%r -> %r" % (C_STRINGS[i], o))
    elif p == "c2":
        vio, _ = _run_history2([tuple(e) for e in case["history"]])
        return sorted(set(vio))
    elif p == "d":
        check_segments([tuple(d) for d in case["segs"]], case["length"], case["pad"], case["padstyle"],
                       case["incl"], res)
    elif p == "e":
        _replay_e(case, res)
    return [(k, v[2]) for k, v in sorted(res.violations.items())]

ENGINE = "E1+E2+E3"
TECHNIQUE = "bounded-exhaustive enumeration on the real code (all code points; all strings/segment lists in scope) + explicit-state BFS over cache histories + preemption-bounded schedule enumeration of two measuring threads on cold module state, judged by an independent width/line reference model"
LEVEL_TEXT = ("Every code point, every string over a mixed-width alphabet up to the length bound with every target size, "
              "every segment list in scope and every cache history until the cache-state space closes is executed on the "
              "real functions and compared with a reference computed from the raw width table. Exhaustive inside the stated "
              "bounds; nothing is sampled.")
LEVEL_NOTE = ("Trusted: CPython, the CELL_WIDTHS table data, the 200-line reference in vf/checks/c13.py + vf/width.py. "
              "Bounds: strings <=6 (quick) / <=8 (thorough) characters over 4 symbols plus 252 long strings; <=3 segments.")
