"""C04 -- Markup styles exactly the tagged regions, and escape() neutralises any text.

(a) escape: every string s over a 12-symbol alphabet ([ ] \\ / = # a b 1 space
    newline colon) up to a length bound. render(escape(s)) must give back s with
    no styling -- alone, and (when s does not end in a backslash and no '[' of s
    is left without a later ']') embedded between four pieces of complete markup
    whose effect on every character is written down by hand in this file.
    emoji=False always; emoji=True in addition when s has fewer than two ':'.
(b) tag semantics: every event sequence up to a length bound over
    {text "x", text escape("[y]"), open t, close t, "[/]"} with t in
    {bold, b, red, blue, not bold, link=U} plus a second link target (open
    link=V: same tag name, different effect, so that WHICH of two same-named
    tags a close removed is visible). The generator keeps the open-tag stack
    itself; expected plain text, expected per-character style (RefStyle
    combination of the open tags in opening order) and whether MarkupError is
    due all come from that model. The effective style of each character is read
    back by Text.render(console) -> Segments -> RefStyle.

(b+) extra strata of (b): the same colour closed and reopened while another tag
    stays open (3 colours, exactly 6 events; 2 colours, exactly 7), and closing-tag
    spellings with a parameter part ([/link=U], [/link=W], [/red=1], [/=]; <=5).
(t) threads: two real threads render markup with a never-parsed compound tag on
    cold Style.parse/normalize caches (vf/cold.py zygote), all schedules with <=1
    preemption at line granularity in rich/style.py + rich/markup.py (vf/sched.py).
(c) resized text: every event sequence up to the bound over text chunks whose
    rendered length differs from their source length (valid emoji code of one and
    of two code points, an emoji-like code that is not in the table, a control
    code that Text strips, one that it keeps, a double-width character) plus
    {x, open/close bold, open/close red, [/]} x emoji on/off x the three entry
    points markup.render, Text.from_markup, Console.render_str. The reference
    counts tag offsets on the RENDERED text (emoji table / strip table as data).
    quick: <=5 events over 10 (111 111 sequences x 6); thorough: <=6 over 12.

Measured (machine shared with ~100 other busy processes, so CPU seconds are the
reliable number; wall on 16 free cores is about CPU/16):
  quick     (a) len<=5: 271 453 strings, (b) len<=5 over 16 events: 1 118 481 sequences;
            (c) len<=5 over 10 events: 111 111 sequences x emoji on/off x 3 entry points;
            (b+) 653 255 sequences; (t) 892 schedules x 4 judged renders;
            4 319 314 evaluations, 340 outcome signatures (175 non-trivial), ~300 CPU-s (~25-30 s wall on 16 free cores)
  thorough  (a) len<=6 over 12 symbols + len 7 over 11 symbols ('b' dropped: same regex class as 'a';
            embeddings with emoji=False only): 22 744 608 strings,
            (b) len<=6 over 16 events + len 7 over a 9-event and a 10-event sub-alphabet: 32 678 666 sequences;
            134 570 660 evaluations, 146 signatures (115 non-trivial), ~9 000 CPU-s (~10 min wall on 16 free cores)
            -- measured before part (c) was added; (c) thorough = 3 257 437 sequences x 6, est. +1 400 CPU-s
"""
import io
import itertools
import os
import sys
import traceback

from ..par import Result, deadline_passed
from ..refstyle import RefStyle

ID = "C04"
LEVEL = "exploration"
ENGINE = "E1+E3"
CAP_S = {"quick": 240, "thorough": 1500}
TECHNIQUE = ("bounded-exhaustive enumeration of strings and tag-event sequences on the real "
             "render()/escape(), judged by a generator-tracked open-tag stack and hand-written "
             "embedding expectations (no regex in the oracle)")
LEVEL_TEXT = ("Every string over the 12-symbol markup alphabet up to the length bound is escaped, rendered alone and "
              "inside four fixed markup contexts, and every tag-event sequence up to the bound is rendered (a second event "
              "alphabet adds text that changes length when rendered -- emoji codes, stripped controls -- x emoji on/off x "
              "render / Text.from_markup / Console.render_str); plain text, "
              "per-character effective style (read back through Text.render) and MarkupError are compared with a "
              "reference that tracks the open-tag stack itself. Exhaustive inside the stated bounds; nothing is sampled.")
LEVEL_NOTE = ("Trusted: CPython, vf/refstyle.py, the ~120-line reference in vf/checks/c04.py, Console.get_style/Style.parse "
              "for the seven fixed tag spellings (C06/C20 decide those). Bounds: strings <=5 (quick) / <=6 over 12 symbols + 7 over "
              "11 symbols (thorough); tag-event sequences over 16 events <=5 (quick) / <=6 + two sub-alphabets at length 7 (thorough).")

# ------------------------------------------------------------------ shared
_CONSOLE = [None]


def _console():
    if _CONSOLE[0] is None:
        from rich.console import Console
        _CONSOLE[0] = Console(file=io.StringIO(), width=80, height=25, force_terminal=True,
                              color_system="truecolor", legacy_windows=False, _environ={})
    return _CONSOLE[0]


def _cells(text):
    """rich Text -> [(char, RefStyle)] through the public render path."""
    out = []
    for seg in text.render(_console()):
        ref = _Keyed.of(seg.style)
        for ch in seg.text:
            out.append((ch, ref))
    return out


class _Keyed(RefStyle):
    """RefStyle whose identity key is computed once (it is compared per character)."""
    __slots__ = ("_k",)

    @classmethod
    def of(cls, style):
        r = RefStyle.from_rich(style)
        return cls(r.attrs, r.color, r.bgcolor, r.link)

    def __init__(self, *a, **kw):
        RefStyle.__init__(self, *a, **kw)
        self._k = RefStyle.key(self)

    def key(self):
        return self._k

    def __add__(self, other):
        r = RefStyle.__add__(self, other)
        return r if isinstance(r, _Keyed) else _Keyed(r.attrs, r.color, r.bgcolor, r.link)

    def __eq__(self, other):
        return self._k == other.key()

    def __hash__(self):
        return hash(self._k)


def _crash_key(exc):
    """crash/<type>/<file>:<function of the innermost rich frame>; when the exception surfaced outside rich
    (a generator's StopIteration re-raised as RuntimeError) the frame is taken from its cause."""
    frames = []
    e = exc
    while e is not None and not frames:
        tb = traceback.extract_tb(e.__traceback__)
        frames = [f for f in tb if os.sep + "rich" + os.sep in f.filename]
        e = e.__cause__ or e.__context__
    f = (frames or list(traceback.extract_tb(exc.__traceback__)))[-1]
    return "crash/%s/%s:%s" % (type(exc).__name__, os.path.basename(f.filename), f.name)


NULL = _Keyed()
BOLD = _Keyed({"bold": True})
NOTBOLD = _Keyed({"bold": False})
RED = _Keyed(color=("std", 1))
BLUE = _Keyed(color=("std", 4))
LINK = _Keyed(link="U")
LINKV = _Keyed(link="V")
GREEN = _Keyed(color=("std", 2))

# ------------------------------------------------------------------ (a) escape
SIGMA = ["a", "[", "]", "\\", "/", "=", "#", "b", "1", " ", "\n", ":"]

# (name, pre, post, expected cells of pre, style of the s-region, expected cells of post)
# -- written by hand from the documented meaning of the tags, not computed.
EMBEDDINGS = [
    ("bold", "[bold]", "[/bold]", [], BOLD, []),
    ("red-implicit", "x[red]y", "z[/]", [("x", NULL), ("y", RED)], RED, [("z", RED)]),
    ("after-close", "[b]q[/b] ", "", [("q", BOLD), (" ", NULL)], NULL, []),
    ("between", "[red]r[/red]", "[blue]t", [("r", RED)], NULL, [("t", BLUE)]),
]


def _embeddable(s):
    """the statement's precondition for the embedded clause"""
    if s.endswith("\\"):
        return False
    return s.rfind("[") < s.rfind("]") or "[" not in s


def _judge_escape(markup, s, pre_cells, region, post_cells, emoji):
    """-> None or (clause, detail). Renders `markup` with the real code."""
    from rich.markup import render
    from rich.errors import MarkupError
    try:
        text = render(markup, emoji=emoji)
        plain = text.plain
        cells = _cells(text)
    except MarkupError as e:
        return ("MarkupError", "render(%r) raised MarkupError: %s" % (markup, e))
    except Exception as e:  # noqa
        return (_crash_key(e), "render(%r) raised %r" % (markup, e))
    want = "".join(c for c, _ in pre_cells) + s + "".join(c for c, _ in post_cells)
    if plain != want:
        how = "shorter" if len(plain) < len(want) else ("longer" if len(plain) > len(want) else "different")
        return ("plain-" + how, "render(%r).plain == %r, want %r" % (markup, plain, want))
    if "".join(c for c, _ in cells) != plain:
        return ("readback-text", "Text.render gives %r for plain %r" % ("".join(c for c, _ in cells), plain))
    exp = list(pre_cells) + [(c, region) for c in s] + list(post_cells)
    for i, ((gc, gs), (wc, ws)) in enumerate(zip(cells, exp)):
        if gs != ws:
            inside = len(pre_cells) <= i < len(pre_cells) + len(s)
            return ("region-style" if inside else "context-style",
                    "render(%r): character %d %r carries %r, want %r" % (markup, i, gc, gs, ws))
    return None


def check_escape(s, res, embed_emoji=True):
    """All clauses of part (a) for one string."""
    from rich.markup import escape
    try:
        e = escape(s)
    except Exception as exc:  # noqa
        res.evaluations += 1
        res.violate(_crash_key(exc), {"part": "a", "s": s}, "escape(%r) raised %r" % (s, exc))
        return
    emoji_too = s.count(":") < 2
    # alone: every string
    for emoji in ((False, True) if emoji_too else (False,)):
        res.evaluations += 1
        err = _judge_escape(e, s, [], NULL, [], emoji)
        if err:
            key = err[0] if err[0].startswith("crash/") else "escape/alone/" + err[0]
            res.violate(key + ("/emoji-only" if emoji else ""), {"part": "a", "s": s, "ctx": "alone", "emoji": emoji},
                        "s=%r escape(s)=%r: %s" % (s, e, err[1]))
            break
    ok = _embeddable(s)
    if ok:
        for name, pre, post, pre_cells, region, post_cells in EMBEDDINGS:
            for emoji in ((False, True) if (emoji_too and embed_emoji) else (False,)):
                res.evaluations += 1
                err = _judge_escape(pre + e + post, s, pre_cells, region, post_cells, emoji)
                if err:
                    key = err[0] if err[0].startswith("crash/") else "escape/embedded/" + err[0]
                    res.violate(key + ("/emoji-only" if emoji else ""),
                                {"part": "a", "s": s, "ctx": name, "emoji": emoji},
                                "s=%r escape(s)=%r in %r..%r: %s" % (s, e, pre, post, err[1]))
                    break
    added = len(e) - len(s)
    res.sig(("a", min(added, 3), ok, s.endswith("\\"), "\n" in s, not emoji_too, "\\" in s),
            nontrivial=added > 0)


# length 7 (thorough only): "b" is left out -- every regex involved ([a-z], \\S, .) puts it in the class of "a"
SIGMA_7 = [c for c in SIGMA if c != "b"]


def _sigma(L):
    return SIGMA if L <= 6 else SIGMA_7


def _a_shards(maxlen):
    shards = []
    for L in range(maxlen + 1):
        k = 0 if L <= 3 else (1 if L == 4 else 2)
        for prefix in itertools.product(range(len(_sigma(L))), repeat=k):
            shards.append({"part": "a", "L": L, "prefix": list(prefix)})
    return shards


def _part_a(sh, tier, res):
    L = sh["L"]
    sigma = _sigma(L)
    head = "".join(sigma[i] for i in sh["prefix"])
    # thorough, length 7: emoji=True is run on the stand-alone clause only (budget); all shorter lengths run it everywhere
    embed_emoji = L <= 6
    n = 0
    for tup in itertools.product(sigma, repeat=L - len(sh["prefix"])):
        if n % 256 == 0 and deadline_passed():
            res.capped = True
            break
        s = head + "".join(tup)
        check_escape(s, res, embed_emoji)
        if n % 4001 == 7:
            res.sample({"part": "a", "s": s})
        n += 1
    res.count("a_strings", n)
    res.count("a_done_len%d" % L, n)


# ------------------------------------------------------------------ (r) repetition: size, not shape
# "For every string s": a short string repeated k times, k around the powers of two a count limit or a
# buffer size would be (64, 128, 256): catches per-call limits (re.sub count, bounded caches, recursion).
REPEATS = {"quick": (65, 130, 300), "thorough": (63, 64, 65, 127, 129, 257, 1025)}
R_LEN = {"quick": 3, "thorough": 3}
R_EV_LEN = {"quick": 2, "thorough": 3}


def _r_shards(tier):
    return ([{"part": "r", "L": 2, "prefix": [i], "what": "esc"} for i in range(len(SIGMA))] +
            [{"part": "r", "L": 2, "prefix": [i], "what": "ev"} for i in range(len(ALPHA_FULL))])


def _part_r(sh, tier, res):
    n = 0
    if sh["what"] == "esc":
        head = SIGMA[sh["prefix"][0]]
        for L in range(R_LEN[tier]):
            for tup in itertools.product(SIGMA, repeat=L):
                u = head + "".join(tup)
                for k in REPEATS[tier]:
                    if deadline_passed():
                        res.capped = True
                        return
                    check_escape(u * k, res, embed_emoji=False)
                    n += 1
        res.count("r_escape_strings", n)
    else:
        head = ALPHA_FULL[sh["prefix"][0]]
        for L in range(R_EV_LEN[tier]):
            for tup in itertools.product(ALPHA_FULL, repeat=L):
                for k in REPEATS[tier][:3]:
                    if deadline_passed():
                        res.capped = True
                        return
                    check_events([head] + list(tup) + ["x"] + ([head] + list(tup)) * (k - 1), res, emoji=False, part="r",
                                 classify_resized=False)
                    n += 1
        res.count("r_event_sequences", n)


# ------------------------------------------------------------------ (b) tag semantics
# event name -> (kind, markup, payload)
#   text: payload = plain text;  open: payload = (normalised name, RefStyle);  close: payload = normalised name
EVENTS = {
    "x": ("text", "x", "x"),
    "y": ("text", "\\[y]", "[y]"),          # == escape("[y]"), spelled out so the oracle never calls escape()
    "+bold": ("open", "[bold]", ("bold", BOLD)),
    "+b": ("open", "[b]", ("bold", BOLD)),   # documented alias: same normalised name
    "+red": ("open", "[red]", ("red", RED)),
    "+blue": ("open", "[blue]", ("blue", BLUE)),
    "+notbold": ("open", "[not bold]", ("not bold", NOTBOLD)),
    "+link": ("open", "[link=U]", ("link", LINK)),
    "+linkV": ("open", "[link=V]", ("link", LINKV)),   # same tag name, different effect: shows WHICH link a close removed
    "-bold": ("close", "[/bold]", "bold"),
    "-b": ("close", "[/b]", "bold"),
    "-red": ("close", "[/red]", "red"),
    "-blue": ("close", "[/blue]", "blue"),
    "-notbold": ("close", "[/not bold]", "not bold"),
    "-link": ("close", "[/link]", "link"),
    "-": ("pop", "[/]", None),
    # a third colour: precedence conflicts between regions of the same style reopened under another open tag
    "+green": ("open", "[green]", ("green", GREEN)),
    "-green": ("close", "[/green]", "green"),
    # closing-tag spellings with a parameter part. Reference rule (written down here, not taken from _parse):
    # the name of a tag is the text before the first '=', stripped; a closing tag whose name is empty is [/].
    "-link=U": ("close", "[/link=U]", "link"),
    "-link=W": ("close", "[/link=W]", "link"),    # the parameter of a closing tag plays no role
    "-red=1": ("close", "[/red=1]", "red"),
    "-=": ("pop", "[/=]", None),
    # part (c): text chunks whose RENDERED length differs from their source length (payload = source text)
    ":x:": ("text", ":x:", ":x:"),           # valid emoji code, one code point
    ":chad:": ("text", ":chad:", ":chad:"),  # valid emoji code, two code points (flag)
    ":nope:": ("text", ":nope:", ":nope:"),  # emoji-like but not in the table: stays as it is
    "^H": ("text", "\x08", "\x08"),          # control code that Text strips
    "^G": ("text", "\x07", "\x07"),          # control code outside the strip table (kept in this version)
    "wide": ("text", "\u3042", "\u3042"),    # double-width character
}
ALPHA_FULL = ["x", "+bold", "-", "+red", "-bold", "-red", "+b", "+blue", "-b", "-blue",
              "y", "+notbold", "-notbold", "+link", "-link", "+linkV"]
ALPHA_7A = ["x", "+bold", "-", "+red", "-bold", "-red", "+b", "+blue", "-blue"]
ALPHA_7B = ["x", "y", "-", "+notbold", "+bold", "+link", "-notbold", "-b", "-link", "+linkV"]
ALPHA_D3 = ["x", "+red", "-", "+blue", "-red", "-blue", "+green", "-green"]
ALPHA_D2 = ["x", "+red", "-", "+blue", "-red", "-blue"]
ALPHA_E = ["x", "+link", "-", "-link", "-link=U", "+linkV", "-link=W", "+red", "-=", "-red=1"]
ALPHA_C = ["x", ":x:", "+bold", "-", "^H", "-bold", "+red", ":nope:", "-red", "wide"]
ALPHA_C_THOROUGH = ALPHA_C + [":chad:", "^G"]
ALPHABETS = {"full": ALPHA_FULL, "7a": ALPHA_7A, "7b": ALPHA_7B, "c": ALPHA_C, "c+": ALPHA_C_THOROUGH,
             "d3": ALPHA_D3, "d2": ALPHA_D2, "e": ALPHA_E}


def _extra_strata(tier):
    """(alphabet, length) strata of part (b) beyond the 16-event alphabet: colours reopened (d2/d3), closing spellings (e)"""
    q = tier == "quick"
    out = [("d3", L) for L in range(6, (6 if q else 7) + 1)]        # shorter ones are inside 'full'
    out += [("d2", L) for L in range(7, (7 if q else 8) + 1)]
    out += [("e", L) for L in range(0, (5 if q else 6) + 1)]
    return out
ENTRIES = ("render", "from_markup", "render_str")

_TABLES = []


def _ref_text(src, emoji):
    """What a source text chunk becomes in the rendered plain text. Rich's emoji table and
    strip table are used as DATA only; the substitution itself is done here (no regex)."""
    if not _TABLES:
        from rich._emoji_codes import EMOJI
        from rich.control import STRIP_CONTROL_CODES
        _TABLES.extend([EMOJI, frozenset(STRIP_CONTROL_CODES)])
    table, strip = _TABLES
    if emoji and len(src) > 2 and src[0] == ":" and src[-1] == ":" and ":" not in src[1:-1]:
        src = table.get(src[1:-1].lower(), src)
    return "".join(ch for ch in src if ord(ch) not in strip)


def _model(events, emoji=True):
    """Reference semantics. -> (error_index or None, cells, info)
    Offsets are counted on the RENDERED text (emoji codes replaced when `emoji`, stripped controls gone).
    cells: [(char, tuple of open tags (name, RefStyle, start offset, event index) in opening order, last close kind)]"""
    stack = []
    cells = []
    last_close = "no-close"
    info = {"depth": 0, "overlap": False, "same_start": False, "resized": 0}
    n = 0
    for idx, ev in enumerate(events):
        kind, _, payload = EVENTS[ev]
        if kind == "text":
            snap = tuple(stack)
            out = _ref_text(payload, emoji)
            if len(out) != len(payload):
                info["resized"] += 1
            for ch in out:
                cells.append((ch, snap, last_close))
                n += 1
        elif kind == "open":
            if stack and stack[-1][2] == n:
                info["same_start"] = True
            stack.append((payload[0], payload[1], n, idx))
            info["depth"] = max(info["depth"], len(stack))
        elif kind == "close":
            for j in range(len(stack) - 1, -1, -1):
                if stack[j][0] == payload:
                    if j != len(stack) - 1:
                        info["overlap"] = True
                    del stack[j]
                    break
            else:
                return idx, cells, info
            last_close = "explicit-close"
        else:
            if not stack:
                return idx, cells, info
            stack.pop()
            last_close = "implicit-close"
    return None, cells, info


_FOLD = {}


def _fold(tags):
    """RefStyle combination of the open tags in opening order (memo on the styles' identity keys)."""
    k = tuple(t[1].key() for t in tags)
    st = _FOLD.get(k)
    if st is None:
        st = NULL
        for t in tags:
            st = st + t[1]
        _FOLD[k] = st
    return st


_DIMS = (lambda st: st.attrs.get("bold"), lambda st: st.color, lambda st: st.link)


def _classify(tags, want, got):
    """Name the class of a per-character style mismatch (finding-key suffix):
    "precedence/..." when some other precedence order of the SAME open tags explains
    what was rendered, None when the set of tags applied must be different."""
    if set(got.attrs) - {"bold"} or got.bgcolor is not None:
        return None
    same_start = True
    for dim in _DIMS:
        if dim(got) == dim(want):
            continue
        setters = [t for t in tags if dim(t[1]) is not None]
        if not any(dim(t[1]) == dim(got) for t in setters):
            return None                     # nobody open sets this value
        winner = setters[-1]
        if not any(t[2] == winner[2] for t in setters if dim(t[1]) == dim(got)):
            same_start = False
    return "precedence/same-start" if same_start else "precedence/different-start"


def _call(entry, markup, emoji):
    if entry == "render":
        from rich.markup import render
        return render(markup) if emoji is None else render(markup, emoji=emoji)
    if entry == "from_markup":
        from rich.text import Text
        return Text.from_markup(markup, emoji=emoji)
    return _console().render_str(markup, emoji=emoji, markup=True, highlight=False)


def check_events(events, res, emoji=None, entry="render", part="b", classify_resized=True):
    """One event sequence through one entry point. emoji=None: the API default (on).
    -> the finding key that was recorded, or None."""
    from rich.errors import MarkupError
    markup = "".join(EVENTS[ev][1] for ev in events)
    err_at, mcells, info = _model(events, emoji is None or emoji)
    case = {"part": part, "events": list(events)}
    call = "render(%r)" % markup
    if part != "b":
        case.update(emoji=emoji, entry=entry)
        call = {"render": "render(%r, emoji=%r)", "from_markup": "Text.from_markup(%r, emoji=%r)",
                "render_str": "console.render_str(%r, emoji=%r, markup=True, highlight=False)"}[entry] % (markup, emoji)
    via = "" if entry == "render" else "/via-" + entry

    def bad(key, detail):
        res.violate(key + via, case, detail)
        return key + via

    res.evaluations += 1
    raised = None
    text = None
    try:
        text = _call(entry, markup, emoji)
        plain = text.plain
        cells = _cells(text)
    except MarkupError as e:
        raised = e
    except Exception as e:  # noqa
        return bad(_crash_key(e), "%s raised %r" % (call, e))
    if err_at is not None:
        res.sig((part, entry, "error", EVENTS[events[err_at]][0], min(info["depth"], 3), raised is not None))
        if raised is None:
            return bad("tags/markuperror-missing/" + EVENTS[events[err_at]][0],
                       "%s returned %r although %r (event %d) has nothing to close"
                       % (call, plain, EVENTS[events[err_at]][1], err_at))
        return None
    if raised is not None:
        return bad("tags/markuperror-spurious", "%s raised MarkupError(%s); every close has an open tag" % (call, raised))
    want_plain = "".join(c for c, _, _ in mcells)
    nstyles = len({_fold(t).key() for _, t, _ in mcells})
    styled = any(t for _, t, _ in mcells)
    if part == "b":
        res.sig(("b", "ok", min(info["depth"], 4), min(nstyles, 4), info["overlap"], info["same_start"],
                 min(len(want_plain), 3)), nontrivial=styled)
    else:
        res.sig((part, entry, "ok", emoji, min(info["depth"], 3), min(nstyles, 3), min(info["resized"], 2)),
                nontrivial=styled and info["resized"] > 0)

    def resized_only():
        """Classification aid (not part of the verdict): does the same tag structure pass when every
        chunk that changes length is replaced by an ordinary 'x'? Then the defect is about resized text."""
        if not (classify_resized and info["resized"]):
            return False
        flag = emoji is None or emoji
        neutral = tuple("x" if EVENTS[ev][0] == "text" and len(_ref_text(EVENTS[ev][2], flag)) != len(EVENTS[ev][2])
                        else ev for ev in events)
        scratch = Result()
        check_events(neutral, scratch, emoji, entry, part, classify_resized=False)
        return not scratch.violations

    if plain != want_plain:
        return bad("tags/resized-text/plain" if resized_only() else "tags/plain",
                   "%s.plain == %r, want %r" % (call, plain, want_plain))
    if "".join(c for c, _ in cells) != plain:
        return bad("tags/readback-text", "Text.render gives %r for plain %r" % ("".join(c for c, _ in cells), plain))
    for i, ((gc, gs), (wc, tags, last_close)) in enumerate(zip(cells, mcells)):
        want = _fold(tags)
        if gs != want:
            cls = _classify(tags, want, gs) or ("style-region/" + last_close)
            if resized_only():
                cls = "resized-text/style-region"
            return bad("tags/" + cls,
                       "%s: character %d %r of %r carries %r, want %r (open tags in opening order: %s; spans %r)"
                       % (call, i, gc, plain, gs, want, [t[0] for t in tags], text.spans))
    return None


def check_resized(events, res):
    """Part (c): one sequence x emoji on/off x three entry points, all judged by the same reference."""
    for emoji in (True, False):
        if check_events(events, res, emoji, "render", "c") is not None:
            continue            # the other entry points go through render(): same defect, same key
        for entry in ENTRIES[1:]:
            check_events(events, res, emoji, entry, "c")


def _b_shards(tier):
    shards = []
    maxfull = 5 if tier == "quick" else 6
    for L in range(maxfull + 1):
        k = 0 if L <= 3 else (1 if L == 4 else 2)
        for prefix in itertools.product(range(len(ALPHA_FULL)), repeat=k):
            shards.append({"part": "b", "alpha": "full", "L": L, "prefix": list(prefix)})
    if tier != "quick":
        for alpha in ("7a", "7b"):
            for prefix in itertools.product(range(len(ALPHABETS[alpha])), repeat=2):
                shards.append({"part": "b", "alpha": alpha, "L": 7, "prefix": list(prefix)})
    for alpha, L in _extra_strata(tier):
        k = 0 if L <= 3 else (1 if L == 4 else 2)
        for prefix in itertools.product(range(len(ALPHABETS[alpha])), repeat=k):
            shards.append({"part": "b", "alpha": alpha, "L": L, "prefix": list(prefix)})
    return shards


def _c_alpha(tier):
    return "c" if tier == "quick" else "c+"


def _c_shards(tier):
    shards = []
    al = _c_alpha(tier)
    for L in range((5 if tier == "quick" else 6) + 1):
        k = 0 if L <= 3 else (1 if L == 4 else 2)
        for prefix in itertools.product(range(len(ALPHABETS[al])), repeat=k):
            shards.append({"part": "c", "alpha": al, "L": L, "prefix": list(prefix)})
    return shards


def _part_b(sh, res):
    alpha = ALPHABETS[sh["alpha"]]
    head = tuple(alpha[i] for i in sh["prefix"])
    n = 0
    for tup in itertools.product(alpha, repeat=sh["L"] - len(head)):
        if n % 256 == 0 and deadline_passed():
            res.capped = True
            break
        events = head + tup
        if sh["part"] == "c":
            check_resized(events, res)
        else:
            check_events(events, res)
        if n % 9973 == 11:
            res.sample({"part": sh["part"], "events": list(events), "markup": "".join(EVENTS[e][1] for e in events)})
        n += 1
    res.count("%s_sequences" % sh["part"], n)
    res.count("%s_done_%s_len%d" % (sh["part"], sh["alpha"], sh["L"]), n)


# ------------------------------------------------------------------ (t) two threads, cold style caches (E3)
# Two real threads render markup whose tag has never been parsed in this interpreter: every execution runs in
# a fork of a zygote that imported rich and installed vf/sched.py but never rendered markup (vf/cold.py), so
# Style.parse / Style.normalize and whatever the shared Style object memoises are cold and both threads can be
# "the first one". Scheduling points: every executed line of rich/style.py and rich/markup.py; all schedules
# with <= 1 preemption. Oracle: each thread's own result is what the sequential reference says (plain text,
# per-character style, no MarkupError), and so is a later single-threaded render of the same markup.
T_STYLE = _Keyed({"bold": True}, ("std", 1), ("std", 4), "U")      # b red on blue link U -- written by hand
T_OPEN = "[b red on blue link U]"
T_CLOSE = "[/b red on blue link U]"
T_HARNESS = {
    # id: (markup of thread A, markup of thread B); expected cells for all of them: x styled, y plain
    "same-tag": (T_OPEN + "x" + T_CLOSE + "y", T_OPEN + "x" + T_CLOSE + "y"),
    "explicit-vs-implicit": (T_OPEN + "x" + T_CLOSE + "y", T_OPEN + "x[/]y"),
}
T_EXPECT = [("x", T_STYLE), ("y", NULL)]
T_ORDER = ("same-tag", "explicit-vs-implicit")
T_SHARDS = 4
T_MAX_EXECS = 6000
T_STOP_AFTER_VIOLATIONS = 8


def _t_setup():
    """in the zygote: rich imported, console built, scheduler installed, LINE events on rich.style and rich.markup;
    no markup is rendered and no style definition is parsed here"""
    import rich.markup
    import rich.style
    from .. import sched
    _console()
    sched.install()
    for mod in (rich.style, rich.markup):
        for co in sched._code_objects(mod):
            sys.monitoring.set_local_events(sched.TOOL, co, sys.monitoring.events.LINE)
    sched.SKIP_CODES = frozenset()


def _t_render(markup):
    """-> ("ok", Text) | ("MarkupError", message) | ("crash", key, repr)"""
    from rich.markup import render
    from rich.errors import MarkupError
    try:
        return ("ok", render(markup))
    except MarkupError as e:
        return ("MarkupError", str(e))
    except Exception as e:  # noqa
        return ("crash", _crash_key(e), repr(e))


def _t_judge(markup, out):
    """-> (clause, detail) or None; reads the Text back single-threaded"""
    if out[0] == "MarkupError":
        return ("markuperror-spurious", "render(%r) raised MarkupError(%s)" % (markup, out[1]))
    if out[0] == "crash":
        return ("exception/" + out[1].split("/", 1)[1], "render(%r) raised %s" % (markup, out[2]))
    text = out[1]
    try:
        cells = _cells(text)
    except Exception as e:  # noqa
        return ("exception/" + _crash_key(e).split("/", 1)[1], "reading back render(%r) (spans %r) raised %r" % (markup, text.spans, e))
    if text.plain != "xy" or "".join(c for c, _ in cells) != "xy":
        return ("plain", "render(%r).plain == %r, want 'xy'" % (markup, text.plain))
    for (gc, gs), (wc, ws) in zip(cells, T_EXPECT):
        if gs != ws:
            return ("style-region", "render(%r): %r carries %r, want %r (spans %r)" % (markup, gc, gs, ws, text.spans))
    return None


def _t_make(hid):
    ma, mb = T_HARNESS[hid]

    def make(s):
        out = {}

        def runner(tid, markup):
            def run():
                out[tid] = _t_render(markup)
            return run

        def observe():
            return {"got": out, "again": {"A": _t_render(ma), "B": _t_render(mb)}}
        return {"A": runner("A", ma), "B": runner("B", mb)}, observe
    return make


def _t_child(hid, prefix):
    from .. import sched, cold
    s, obs = sched.run_once(_t_make(hid), prefix, "line", 0)
    vio = []
    if s.problem:
        vio.append(("threads/%s" % s.problem.split(":")[0], s.problem))
    for tid, e in s.errors:
        vio.append(("threads/exception/%s" % type(e).__name__, "thread %s raised %r" % (tid, e)))
    for tid, markup in zip("AB", T_HARNESS[hid]):
        got = obs["got"].get(tid)
        if got is None:
            if not s.problem:
                vio.append(("threads/no-result", "thread %s did not finish" % tid))
        else:
            err = _t_judge(markup, got)
            if err:
                vio.append(("threads/" + err[0], "thread %s: %s" % (tid, err[1])))
        err = _t_judge(markup, obs["again"][tid])
        if err:
            vio.append(("threads/memoised/" + err[0], "rendered again by one thread after both finished: %s" % err[1]))
    dev = s.deviations_before(len(s.choices))
    return cold.record_of(s, sig=("t", hid, min(dev, 3), bool(vio)), vio=vio)


def _part_t(sh, tier, res):
    from .. import cold
    hid = sh["h"]
    zy = cold.Zygote("vf.checks.c04", "_t_setup")
    bad = [0]

    def on_exec(rec):
        res.evaluations += 4
        res.sig(rec["sig"], nontrivial=rec["sig"][2] > 0)
        if rec["vio"]:
            bad[0] += 1
            ch = list(rec["choices"])
            while ch and ch[-1] == 0:
                ch.pop()
            for key, detail in rec["vio"]:
                res.violate(key, {"part": "t", "h": hid, "choices": ch}, detail)
        return bad[0] < T_STOP_AFTER_VIOLATIONS
    try:
        st = cold.explore_cold(lambda prefix: zy.call("_t_child", hid, prefix), sh["bound"], on_exec,
                               stop=deadline_passed, max_execs=T_MAX_EXECS, shard=(sh["i"], sh["n"]))
    finally:
        zy.close()
    res.count("schedules", st["executions"])
    res.counters["max_choice_points_per_schedule"] = max(res.counters.get("max_choice_points_per_schedule", 0),
                                                         st["max_choice_points"])
    if not st["complete"] and not bad[0]:
        res.capped = True
    if sh["i"] == 0:
        res.count("threads_harness:%s:b%d" % (hid, sh["bound"]))
        res.sample({"part": "t", "harness": hid, "A": T_HARNESS[hid][0], "B": T_HARNESS[hid][1], "bound": sh["bound"]}, limit=1)


def _t_shards(tier):
    return [{"part": "t", "h": hid, "bound": 1, "i": i, "n": T_SHARDS, "L": 0, "prefix": [i]}
            for hid in T_ORDER for i in range(T_SHARDS)]


def _replay_t(case, res):
    from .. import cold
    zy = cold.Zygote("vf.checks.c04", "_t_setup")
    try:
        rec = zy.call("_t_child", case["h"], list(case["choices"]))
    finally:
        zy.close()
    for key, detail in rec["vio"]:
        res.violate(key, case, detail)


# ------------------------------------------------------------------ protocol
def plan(tier, seed):
    # strata in ascending length, (b) before (a) inside a stratum: a wall cap cuts off the longest strings only
    shards = _a_shards(5 if tier == "quick" else 7) + _b_shards(tier) + _c_shards(tier) + _t_shards(tier) + _r_shards(tier)
    shards.sort(key=lambda sh: (sh["L"], "tbcar".index(sh["part"]), sh.get("alpha", ""), sh.get("h", ""), sh["prefix"]))
    return shards


def _completed(res, tier):
    """highest length bound whose stratum (and all shorter ones) was enumerated completely"""
    a_done = -1
    for L in range((5 if tier == "quick" else 7) + 1):
        if res.counters.get("a_done_len%d" % L, 0) != len(_sigma(L)) ** L:
            break
        a_done = L
    b_done = -1
    for L in range((5 if tier == "quick" else 6) + 1):
        if res.counters.get("b_done_full_len%d" % L, 0) != len(ALPHA_FULL) ** L:
            break
        b_done = L
    b7 = {al: res.counters.get("b_done_%s_len7" % al, 0) == len(ALPHABETS[al]) ** 7 for al in ("7a", "7b")}
    extra = {"%s/len%d" % (al, L): res.counters.get("b_done_%s_len%d" % (al, L), 0) == len(ALPHABETS[al]) ** L
             for al, L in _extra_strata(tier)}
    c_done = -1
    al = _c_alpha(tier)
    for L in range((5 if tier == "quick" else 6) + 1):
        if res.counters.get("c_done_%s_len%d" % (al, L), 0) != len(ALPHABETS[al]) ** L:
            break
        c_done = L
    return a_done, b_done, b7, c_done, extra


def run_shard(sh, tier, seed):
    res = Result()
    if sh["part"] == "a":
        _part_a(sh, tier, res)
    elif sh["part"] == "t":
        _part_t(sh, tier, res)
    elif sh["part"] == "r":
        _part_r(sh, tier, res)
    else:
        _part_b(sh, res)
    return res


def describe(tier, seed, res):
    q = tier == "quick"
    return {
        "rule": "(a) every string over {a [ ] \\ / = # b 1 space newline :} of length <=%d: render(escape(s), emoji=False) "
                "alone, and -- when s does not end in a backslash and no '[' of s lacks a later ']' -- between "
                "('[bold]','[/bold]'), ('x[red]y','z[/]'), ('[b]q[/b] ',''), ('[red]r[/red]','[blue]t'); emoji=True as well "
                "when s has fewer than two ':'%s. (b) every sequence of <=%d events over {x, \\[y], open/close of bold, b, red, "
                "blue, 'not bold', link=U, plus open link=V, [/]} (16 events)%s; plus every sequence of exactly %s events over {x, open/close red, blue, green, [/]} and of exactly %s over "
                "{x, open/close red, blue, [/]} (the same style closed and reopened while another tag stays open); plus every sequence of "
                "<=%d events over closing-tag spellings {x, [link=U], [link=V], [red], [/], [/link], [/link=U], [/link=W], [/red=1], [/=]} "
                "(reference rule: tag name = text before '=', stripped; empty name = [/]). (c) every sequence of <=%d events over text chunks "
                "whose rendered length differs from their source length {:x: (emoji, 1 code point), :nope: (no such emoji), "
                "U+0008 (stripped control), U+3042 (wide)%s} plus {x, +bold, +red, -bold, -red, [/]} x emoji on/off x entry point "
                "{markup.render, Text.from_markup, Console.render_str}; offsets of the reference are counted on the rendered text "
                "(emoji table and strip table used as data). (t) E3 on cold style caches: harnesses %s, two real threads each rendering markup with the "
                "never-parsed tag [b red on blue link U] (explicit / implicit close), every execution in a fork of a zygote that never "
                "rendered markup (vf/cold.py), every executed line of rich/style.py and rich/markup.py a scheduling point, all schedules "
                "with <=1 preemption; each thread's Text and a later single-threaded render are judged like the sequential case. "
                "(r) size: every string of <=%d symbols of (a) repeated k times and every sequence of <=%d events of (b) repeated k times "
                "(one text chunk after the first copy), k in %s: a per-call count limit, a bounded cache or recursion depth shows here. "
                "A case is non-trivial when escape() added at least one "
                "backslash (a) / at least one character is inside an open tag or MarkupError is due (b) / a styled character "
                "coexists with a chunk that changed length (c); distinct = distinct outcome signatures."
                % (5 if q else 7,
                   "" if q else " (at length 7: 11 symbols -- 'b' is in the same class as 'a' for every regex involved -- and emoji=True only on the stand-alone clause)",
                   5 if q else 6,
                   "" if q else ", plus every sequence of exactly 7 events over the sub-alphabets "
                                "{x,+bold,[/],+red,-bold,-red,+b,+blue,-blue} and {x,\\[y],[/],+not bold,+bold,+link=U,+link=V,-not bold,-b,-link}",
                   "6" if q else "6..7", "7" if q else "7..8", 5 if q else 6,
                   5 if q else 6,
                   "" if q else ", :chad: (emoji, 2 code points), U+0007 (control that is not stripped)",
                   ", ".join(T_ORDER), R_LEN[tier], R_EV_LEN[tier], list(REPEATS[tier])),
        "assumptions": [
            "Console.get_style resolves the fixed tag spellings bold, b, red, blue, 'not bold', 'link U', 'link V' to their documented styles (decided by C06/C20)",
            "the embedded clause is only judged for contexts that do not end in a backslash (such a context is not 'complete markup')",
            "emoji substitution is a separate feature: emoji=True is only judged where fewer than two ':' make it a no-op",
            "exact (tri-state) style equality per character: 'not bold' must read back as bold=False, not as unset",
            "part (t): rendering internals outside rich/style.py and rich/markup.py (Text, Color.parse, the C-level lru_cache wrappers) run without scheduling points; preemption bound 1",
            "part (c): the rendered form of a text chunk is its emoji-table entry (emoji on, ':name:' in rich._emoji_codes.EMOJI) minus the code points of rich.control.STRIP_CONTROL_CODES; both tables are trusted as data",
        ],
        "coverage": {"strings": res.counters.get("a_strings", 0), "tag_sequences": res.counters.get("b_sequences", 0),
                     "completed_bounds": {"escape_string_length": _completed(res, tier)[0],
                                          "tag_events_full_alphabet": _completed(res, tier)[1],
                                          "tag_events_len7_subalphabets": (_completed(res, tier)[2] if not q else "n/a"),
                                          "resized_text_events": _completed(res, tier)[3],
                                          "tag_events_extra_strata_complete": all(_completed(res, tier)[4].values()),
                                          "tag_events_extra_strata_incomplete": sorted(k for k, v in _completed(res, tier)[4].items() if not v)},
                     "resized_text_sequences": res.counters.get("c_sequences", 0),
                     "repeated_strings": res.counters.get("r_escape_strings", 0),
                     "repeated_event_sequences": res.counters.get("r_event_sequences", 0),
                     "schedules": res.counters.get("schedules", 0),
                     "thread_harnesses_explored": sorted(k.split(":", 1)[1] for k in res.counters if k.startswith("threads_harness:"))},
    }


def replay(case):
    res = Result()
    if case.get("part") == "a":
        check_escape(case["s"], res)
    elif case.get("part") == "t":
        _replay_t(case, res)
    elif case.get("part") in ("c", "r"):
        check_events(tuple(case["events"]), res, case["emoji"], case["entry"], case["part"], classify_resized=case["part"] == "c")
    else:
        check_events(tuple(case["events"]), res)
    return [(k, v[2]) for k, v in sorted(res.violations.items())]
