import sys
from .runner import main
sys.exit(main())
