"""setup_cmd: compiles the package, checks the reference models against
hand-verified cases and validates the evidence writer. Needs no network."""
import compileall
import importlib
import json
import os
import sys

from . import ROOT, use_repo


def main():
    use_repo()
    ok = compileall.compile_dir(os.path.join(ROOT, "vf"), quiet=1, force=False)
    if not ok:
        print("selftest: compile failed")
        return 2
    import rich  # noqa: the repo must import
    failures = []
    for name in sorted(os.listdir(os.path.join(ROOT, "vf"))):
        if name.endswith(".py") and name not in ("__main__.py",):
            m = importlib.import_module("vf." + name[:-3])
            st = getattr(m, "_selftest", None)
            if st:
                try:
                    for msg in st() or []:
                        failures.append("%s: %s" % (name, msg))
                except Exception as e:  # pragma: no cover
                    failures.append("%s: selftest raised %r" % (name, e))
    for name in sorted(os.listdir(os.path.join(ROOT, "vf", "checks"))):
        if name.startswith("c") and name.endswith(".py"):
            m = importlib.import_module("vf.checks." + name[:-3])
            for attr in ("ID", "LEVEL", "plan", "run_shard", "describe", "replay", "TECHNIQUE", "LEVEL_TEXT", "LEVEL_NOTE"):
                if not hasattr(m, attr):
                    failures.append("%s lacks %s" % (name, attr))
    from . import evidence
    ev = {"property_id": "C00", "tier": "quick", "seed": 0, "level": "exploration",
          "coverage": {"evaluations": 3, "distinct_nontrivial": 2, "rule": "r", "samples": [1]}, "wall_s": 0.1}
    if evidence.validate(ev):
        failures.append("evidence validator rejects a valid skeleton")
    if not evidence.validate(dict(ev, coverage={"evaluations": 0})):
        failures.append("evidence validator accepts an invalid skeleton")
    from . import findings
    try:
        findings.load()
    except Exception as e:
        failures.append("known_findings.txt: %r" % e)
    try:
        json.load(open(os.path.join(ROOT, "MANIFEST.json")))
    except Exception as e:
        failures.append("MANIFEST.json: %r" % e)
    for f in failures:
        print("selftest FAIL:", f)
    print("selftest: %s (rich from %s)" % ("FAILED" if failures else "ok", os.path.dirname(rich.__file__)))
    return 2 if failures else 0
