"""CLI:  python -m vf check <ID> --tier quick|thorough
         python -m vf replay <path>
         python -m vf selftest
Exit codes: 0 property held on everything explored (known findings are listed),
1 violation (a line `VIOLATION property=<id> replay=<path>` per new finding key),
2 the machinery itself failed -- never used to hide a violation."""
import argparse
import hashlib
import importlib
import json
import os
import subprocess
import sys
import time

from . import ROOT, use_repo


def _reexec_if_needed():
    if os.environ.get("PYTHONHASHSEED") != "0":
        env = dict(os.environ)
        env["PYTHONHASHSEED"] = "0"
        os.execve(sys.executable, [sys.executable, "-m", "vf"] + sys.argv[1:], env)


def _module(pid):
    return importlib.import_module("vf.checks." + pid.lower())


def _repo_head(repo):
    try:
        return subprocess.run(["git", "-C", repo, "rev-parse", "--short", "HEAD"],
                              capture_output=True, text=True, timeout=10).stdout.strip()
    except Exception:
        return "?"


def cmd_check(pid, tier, quiet=False):
    from . import par, evidence, findings
    repo = use_repo()
    seed = int(os.environ.get("VERIF_SEED", "0") or 0)
    mod = _module(pid)
    t0 = time.time()
    cap = getattr(mod, "CAP_S", {}).get(tier)
    if cap is not None and tier == "quick":
        # a capped run exits 0 with exhaustive=false: on a loaded machine a low cap hides violations,
        # so the quick tier never gets less than 10 minutes (it needs 15-60 s on 16 idle cores)
        cap = max(cap, 600)
    if os.environ.get("VF_CAP_S"):
        cap = float(os.environ["VF_CAP_S"])
    try:
        shards = mod.plan(tier, seed)
        res = par.run(mod.__name__, shards, tier, seed, cap_s=cap, workers=getattr(mod, "WORKERS", None),
                      fresh_worker_per_shard=getattr(mod, "FRESH_WORKERS", False))
        if hasattr(mod, "finish"):
            mod.finish(tier, seed, res)
        desc = mod.describe(tier, seed, res)
    except par.MachineryError as e:
        print("MACHINERY-ERROR property=%s\n%s" % (pid, e), file=sys.stderr)
        return 2
    wall = time.time() - t0

    known, _fixed = findings.load()
    new_keys, known_hit = [], []
    for key in sorted(res.violations):
        if (pid, key) in known:
            known_hit.append(key)
        else:
            new_keys.append(key)

    cov = {
        "evaluations": res.evaluations,
        "distinct_nontrivial": len(res.nontrivial),
        "distinct_outcomes": len(res.sigs),
        "rule": desc.get("rule", ""),
        "samples": (desc.get("samples") or res.samples)[:6],
        "exhaustive": bool(desc.get("exhaustive", True)) and not res.capped,
        "shards": len(shards),
        "capped_by_wall_clock": res.capped,
        "repo": repo,
        "repo_head": _repo_head(repo),
        "finding_keys_new": new_keys,
        "finding_keys_known": known_hit,
        "violating_cases_by_key": {k: res.vcount[k] for k in sorted(res.vcount)},
    }
    for k, v in res.counters.items():
        cov.setdefault(k, v)
    for k, v in desc.get("coverage", {}).items():
        cov[k] = v
    ev = {
        "property_id": pid, "tier": tier, "seed": seed, "level": mod.LEVEL,
        "coverage": cov, "assumptions": desc.get("assumptions", []),
        "wall_s": round(wall, 2), "violations": len(new_keys),
    }
    problems = evidence.write(ev)
    if problems:
        print("MACHINERY-ERROR property=%s evidence invalid: %s" % (pid, problems), file=sys.stderr)
        return 2

    for key in known_hit:
        print("KNOWN-FINDING: property=%s %s :: %s" % (pid, key, known[(pid, key)]))
    rc = 0
    for key in new_keys:
        size, cj, detail = res.violations[key]
        h = hashlib.sha1((pid + key).encode()).hexdigest()[:12]
        d = os.path.join(ROOT, "replays", pid)
        os.makedirs(d, exist_ok=True)
        path = os.path.join(d, h + ".json")
        with open(path, "w", encoding="utf-8") as f:
            json.dump({"property": pid, "key": key, "case": json.loads(cj), "detail": detail,
                       "tier": tier, "seed": seed, "count": res.vcount[key],
                       "repo_head": cov["repo_head"]}, f, indent=1, ensure_ascii=True)
            f.write("\n")
        print("VIOLATION property=%s replay=%s" % (pid, path))
        if not quiet:
            print("  key=%s cases=%d\n  case=%s\n  detail=%s" % (key, res.vcount[key], cj[:600], detail[:800]))
        rc = 1
    if not quiet:
        print("%s %s: evaluations=%d distinct_outcomes=%d nontrivial=%d exhaustive=%s wall=%.1fs%s" % (
            pid, tier, res.evaluations, len(res.sigs), len(res.nontrivial), cov["exhaustive"], wall,
            "" if rc == 0 else "  ** %d new finding key(s)" % len(new_keys)))
    return rc


def cmd_replay(path):
    use_repo()
    with open(path, encoding="utf-8") as f:
        rp = json.load(f)
    mod = _module(rp["property"])
    out = mod.replay(rp["case"])
    if out:
        for key, detail in out:
            print("REPRODUCED property=%s key=%s\n  %s" % (rp["property"], key, detail))
        return 1
    print("not reproduced: property=%s key=%s" % (rp["property"], rp["key"]))
    return 0


def main(argv=None):
    ap = argparse.ArgumentParser(prog="vf")
    sub = ap.add_subparsers(dest="cmd", required=True)
    c = sub.add_parser("check")
    c.add_argument("id")
    c.add_argument("--tier", default=os.environ.get("VERIF_TIER", "quick"), choices=["quick", "thorough"])
    c.add_argument("--quiet", action="store_true")
    r = sub.add_parser("replay")
    r.add_argument("path")
    sub.add_parser("selftest")
    a = ap.parse_args(argv)
    _reexec_if_needed()
    if a.cmd == "check":
        return cmd_check(a.id.upper(), a.tier, a.quiet)
    if a.cmd == "replay":
        return cmd_replay(a.path)
    if a.cmd == "selftest":
        from . import selftest
        return selftest.main()
    return 2
