"""Reference terminal, independent of rich.ansi.

tokenize()  ESC-sequence tokeniser (CSI, OSC, C0 controls)
Decoder     folds SGR / OSC-8 into a running style; yields (char, visible-style) cells
Screen      VT100-subset screen: grid + scroll-back, cursor, deferred wrap (xterm),
            LF = index + CR (tty onlcr), CR, BS, CSI n A/B/C/D, CSI 2K, CSI 2J, CSI H,
            CSI ?25 h/l, BEL, SGR / OSC 8 through the Decoder
"""
from .width import cw

ESC = "\x1b"

_SGR_ON = {1: "bold", 2: "dim", 3: "italic", 4: "underline", 5: "blink", 6: "blink2",
           7: "reverse", 8: "conceal", 9: "strike", 21: "underline2", 51: "frame",
           52: "encircle", 53: "overline"}
_SGR_OFF = {22: ("bold", "dim"), 23: ("italic",), 24: ("underline", "underline2"),
            25: ("blink", "blink2"), 27: ("reverse",), 28: ("conceal",), 29: ("strike",),
            54: ("frame", "encircle"), 55: ("overline",)}


def tokenize(data, pending=""):
    """-> (tokens, rest). tokens: ('text', ch) | ('c0', ch) | ('csi', params, final) |
    ('osc', payload) | ('esc', ch). An incomplete trailing sequence is returned as rest."""
    data = pending + data
    out = []
    i, n = 0, len(data)
    while i < n:
        ch = data[i]
        if ch != ESC:
            if ch < " " or ch == "\x7f":
                out.append(("c0", ch))
            else:
                out.append(("text", ch))
            i += 1
            continue
        if i + 1 >= n:
            return out, data[i:]
        nx = data[i + 1]
        if nx == "[":
            j = i + 2
            while j < n and not ("@" <= data[j] <= "~"):
                j += 1
            if j >= n:
                return out, data[i:]
            out.append(("csi", data[i + 2:j], data[j]))
            i = j + 1
        elif nx == "]":
            j = i + 2
            end = None
            while j < n:
                if data[j] == "\x07":
                    end = (j, j + 1)
                    break
                if data[j] == ESC and j + 1 < n and data[j + 1] == "\\":
                    end = (j, j + 2)
                    break
                j += 1
            if end is None:
                return out, data[i:]
            out.append(("osc", data[i + 2:end[0]]))
            i = end[1]
        else:
            out.append(("esc", nx))
            i += 2
    return out, ""


class Decoder:
    """Running SGR / OSC-8 state."""

    def __init__(self):
        self.attrs = set()
        self.fg = None
        self.bg = None
        self.link = None
        self.unknown = []     # SGR parameters / sequences this model does not know
        self.sgr_params = []  # every SGR parameter list seen (for "no colour parameters" checks)

    def visible(self):
        return (tuple(sorted(self.attrs)), self.fg, self.bg, self.link)

    def is_null(self):
        return not self.attrs and self.fg is None and self.bg is None and self.link is None

    def sgr(self, params):
        if params == "":
            codes = [0]
        else:
            codes = []
            for p in params.split(";"):
                if p == "":
                    codes.append(0)
                elif p.isascii() and p.isdigit():
                    codes.append(int(p))
                else:
                    self.unknown.append(("sgr-param", p))
                    return
        self.sgr_params.append(tuple(codes))
        i = 0
        while i < len(codes):
            c = codes[i]
            if c == 0:
                self.attrs.clear()
                self.fg = self.bg = None
            elif c in _SGR_ON:
                self.attrs.add(_SGR_ON[c])
            elif c in _SGR_OFF:
                for a in _SGR_OFF[c]:
                    self.attrs.discard(a)
            elif 30 <= c <= 37:
                self.fg = ("std", c - 30)
            elif 90 <= c <= 97:
                self.fg = ("std", c - 90 + 8)
            elif 40 <= c <= 47:
                self.bg = ("std", c - 40)
            elif 100 <= c <= 107:
                self.bg = ("std", c - 100 + 8)
            elif c == 39:
                self.fg = None
            elif c == 49:
                self.bg = None
            elif c in (38, 48):
                if i + 2 < len(codes) and codes[i + 1] == 5:
                    col = ("idx", codes[i + 2])
                    i += 2
                elif i + 4 < len(codes) and codes[i + 1] == 2:
                    col = ("rgb", codes[i + 2], codes[i + 3], codes[i + 4])
                    i += 4
                else:
                    self.unknown.append(("sgr-extended", tuple(codes[i:])))
                    return
                if c == 38:
                    self.fg = col
                else:
                    self.bg = col
            else:
                self.unknown.append(("sgr", c))
            i += 1

    def osc(self, payload):
        if payload.startswith("8;"):
            rest = payload[2:]
            _params, sep, uri = rest.partition(";")
            if not sep:
                self.unknown.append(("osc8", payload))
                return
            self.link = uri or None
        else:
            self.unknown.append(("osc", payload))


def decode(data):
    """-> (cells, controls, decoder). cells: list of (char, visible style) for every printable
    character and newline; controls: list of non-SGR/OSC8 control tokens."""
    toks, rest = tokenize(data)
    d = Decoder()
    cells, controls = [], []
    for t in toks:
        if t[0] == "text":
            cells.append((t[1], d.visible()))
        elif t[0] == "c0":
            if t[1] == "\n":
                cells.append(("\n", d.visible()))
            else:
                controls.append(t)
        elif t[0] == "csi" and t[2] == "m":
            d.sgr(t[1])
        elif t[0] == "osc":
            before = len(d.unknown)
            d.osc(t[1])
            if len(d.unknown) != before:
                controls.append(t)
        else:
            controls.append(t)
    if rest:
        controls.append(("incomplete", rest))
    return cells, controls, d


class Screen:
    def __init__(self, W, H):
        self.W, self.H = W, H
        self.rows = [self._blank() for _ in range(H)]
        self.sb = []            # scroll-back rows
        self.r = 0
        self.c = 0
        self.wrap = False       # deferred wrap pending
        self.cursor_visible = True
        self.events = []        # notable things: ('clamp-up', n), ('unknown', token), ('bell',)
        self.dec = Decoder()
        self.pending = ""
        self.scrolled = 0
        self.min_row_touched_abs = None

    def _blank(self):
        return [(" ", None)] * self.W

    def abs_row(self):
        return len(self.sb) + self.r

    def _lf(self):
        if self.r == self.H - 1:
            self.sb.append(self.rows.pop(0))
            self.rows.append(self._blank())
            self.scrolled += 1
        else:
            self.r += 1

    def _put(self, ch):
        w = cw(ch)
        if w == 0:
            # attaches to the previous cell; no cursor movement
            if self.c > 0 or self.wrap:
                col = self.c if self.wrap else self.c - 1
                col = min(col, self.W - 1)
                while col > 0 and self.rows[self.r][col][0] == "":
                    col -= 1
                base, st = self.rows[self.r][col]
                row = list(self.rows[self.r])
                row[col] = (base + ch, st)
                self.rows[self.r] = row
            return
        if self.wrap or self.c + w > self.W:
            self.c = 0
            self._lf()
            self.wrap = False
        row = list(self.rows[self.r])
        row[self.c] = (ch, self.dec.visible())
        if w == 2 and self.c + 1 < self.W:
            row[self.c + 1] = ("", None)
        self.rows[self.r] = row
        self.c += w
        if self.c >= self.W:
            self.c = self.W - 1
            self.wrap = True

    def feed(self, data):
        toks, self.pending = tokenize(data, self.pending)
        for t in toks:
            k = t[0]
            if k == "text":
                self._put(t[1])
            elif k == "c0":
                ch = t[1]
                if ch == "\n":
                    self.c = 0
                    self.wrap = False
                    self._lf()
                elif ch == "\r":
                    self.c = 0
                    self.wrap = False
                elif ch == "\x08":
                    self.c = max(0, self.c - 1)
                    self.wrap = False
                elif ch == "\x07":
                    self.events.append(("bell",))
                elif ch == "\t":
                    self.c = min(self.W - 1, (self.c // 8 + 1) * 8)
                elif ch == "\x00":
                    pass
                else:
                    self.events.append(("unknown", t))
            elif k == "csi":
                self._csi(t[1], t[2])
            elif k == "osc":
                self.dec.osc(t[1])
            else:
                self.events.append(("unknown", t))

    def _num(self, p, default=1):
        if p == "":
            return default
        return int(p) if p.isdigit() else default

    def _csi(self, p, f):
        if f == "m":
            self.dec.sgr(p)
        elif f == "A":
            n = self._num(p)
            if self.r - n < 0:
                self.events.append(("clamp-up", n, self.r))
            self.r = max(0, self.r - n)
            self.wrap = False
        elif f == "B":
            self.r = min(self.H - 1, self.r + self._num(p))
            self.wrap = False
        elif f == "C":
            self.c = min(self.W - 1, self.c + self._num(p))
            self.wrap = False
        elif f == "D":
            self.c = max(0, self.c - self._num(p))
            self.wrap = False
        elif f == "K":
            n = self._num(p, 0)
            row = list(self.rows[self.r])
            if n == 2:
                row = self._blank()
            elif n == 0:
                row[self.c:] = [(" ", None)] * (self.W - self.c)
            elif n == 1:
                row[:self.c + 1] = [(" ", None)] * (self.c + 1)
            self.rows[self.r] = row
        elif f == "J":
            n = self._num(p, 0)
            if n == 2:
                self.rows = [self._blank() for _ in range(self.H)]
            else:
                self.events.append(("unknown", ("csi", p, f)))
        elif f == "H":
            parts = (p.split(";") + ["", ""])[:2]
            self.r = min(self.H - 1, max(0, self._num(parts[0]) - 1))
            self.c = min(self.W - 1, max(0, self._num(parts[1]) - 1))
            self.wrap = False
        elif f in ("h", "l") and p == "?25":
            self.cursor_visible = f == "h"
        else:
            self.events.append(("unknown", ("csi", p, f)))

    @staticmethod
    def _row_text(row):
        return "".join(ch for ch, _ in row).rstrip(" ")

    def visible_lines(self):
        """scroll-back + screen rows, right-stripped, trailing blank rows dropped"""
        out = [self._row_text(r) for r in self.sb + self.rows]
        while out and out[-1] == "":
            out.pop()
        return out

    def screen_lines(self):
        return [self._row_text(r) for r in self.rows]


def _selftest():
    bad = []

    def expect(name, got, want):
        if got != want:
            bad.append("%s: got %r want %r" % (name, got, want))

    def lines(W, H, data):
        s = Screen(W, H)
        s.feed(data)
        return s

    expect("plain", lines(5, 3, "ab\ncd").visible_lines(), ["ab", "cd"])
    expect("cr", lines(5, 3, "abc\rX").visible_lines(), ["Xbc"])
    expect("wrap-deferred", lines(3, 3, "abc").visible_lines(), ["abc"])
    s = lines(3, 3, "abc")
    expect("wrap-deferred-cursor", (s.r, s.c, s.wrap), (0, 2, True))
    expect("wrap-deferred-nl", lines(3, 3, "abc\nd").visible_lines(), ["abc", "d"])
    expect("wrap", lines(3, 3, "abcd").visible_lines(), ["abc", "d"])
    expect("scroll", lines(3, 2, "a\nb\nc").visible_lines(), ["a", "b", "c"])
    s = lines(3, 2, "a\nb\nc")
    expect("scrollback", ([Screen._row_text(r) for r in s.sb], s.screen_lines()), (["a"], ["b", "c"]))
    expect("up-erase", lines(5, 3, "ab\ncd\r\x1b[2K\x1b[1A\x1b[2KX").visible_lines(), ["X"])
    s = lines(5, 3, "a\x1b[3A")
    expect("clamp", s.events, [("clamp-up", 3, 0)])
    expect("wide", lines(4, 2, "あい").visible_lines(), ["あい"])
    expect("wide-wrap", lines(3, 2, "aあい").visible_lines(), ["aあ", "い"])
    expect("combining", lines(3, 2, "áb").visible_lines(), ["áb"])
    s = lines(5, 2, "\x1b[?25l")
    expect("hide", s.cursor_visible, False)
    s.feed("\x1b[?25h")
    expect("show", s.cursor_visible, True)
    expect("clear", lines(5, 2, "ab\x1b[2J\x1b[Hc").visible_lines(), ["c"])
    cells, ctl, d = decode("\x1b[1;31mx\x1b[0my")
    expect("sgr", cells, [("x", (("bold",), ("std", 1), None, None)), ("y", ((), None, None, None))])
    cells, ctl, d = decode("\x1b[38;5;100;48;2;1;2;3mx")
    expect("sgr-ext", cells[0][1], ((), ("idx", 100), ("rgb", 1, 2, 3), None))
    cells, ctl, d = decode("\x1b[91;102mx\x1b[39;49my")
    expect("bright", (cells[0][1], cells[1][1]), (((), ("std", 9), ("std", 10), None), ((), None, None, None)))
    cells, ctl, d = decode("\x1b]8;id=1;http://a\x1b\\x\x1b]8;;\x1b\\y")
    expect("osc8", (cells[0][1][3], cells[1][1][3]), ("http://a", None))
    cells, ctl, d = decode("\x1b[1;2;3;4;5;6;7;8;9;21;51;52;53mx\x1b[22;23;24;25;27;28;29;54;55my")
    expect("all-attrs", (len(cells[0][1][0]), cells[1][1][0]), (13, ()))
    cells, ctl, d = decode("\x1b[mx\x07\x1b[2Ky")
    expect("controls", ctl, [("c0", "\x07"), ("csi", "2", "K")])
    toks, rest = tokenize("ab\x1b[3")
    expect("incomplete", rest, "\x1b[3")
    toks2, rest2 = tokenize("1mz", rest)
    expect("resume", (toks2, rest2), ([("csi", "31", "m"), ("text", "z")], ""))
    return bad
