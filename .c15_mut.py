import subprocess, sys, os, re
WT = "/tmp/wt_c15"
M = [
 ("M1 html escape < before &", "rich/console.py",
  'return text.replace("&", "&amp;").replace("<", "&lt;").replace(">", "&gt;")',
  'return text.replace("<", "&lt;").replace("&", "&amp;").replace(">", "&gt;")'),
 ("M2 end_capture forgets to empty the buffer", "rich/console.py",
  '        render_result = self._render_buffer(self._buffer)\n        del self._buffer[:]\n',
  '        render_result = self._render_buffer(self._buffer)\n'),
 ("M3 export_html clear dropped", "rich/console.py",
  '                background=_theme.background_color.hex,\n            )\n            if clear:\n                del self._record_buffer[:]\n',
  '                background=_theme.background_color.hex,\n            )\n'),
 ("M4 export_text keeps control segments", "rich/console.py",
  '                    for segment in self._record_buffer\n                    if not segment.is_control\n',
  '                    for segment in self._record_buffer\n'),
 ("M5 simplify merges control into text (revert e4990ff)", "rich/segment.py",
  '                last_segment.style == segment.style\n                and not segment.is_control\n                and not last_segment.is_control\n',
  '                last_segment.style == segment.style\n                and not segment.is_control\n'),
 ("M6 record keeps only the last flush", "rich/console.py",
  '                self._record_buffer.extend(buffer)',
  '                self._record_buffer = list(buffer)'),
 ("M7 capture buffer deleted before rendering (swapped lines)", "rich/console.py",
  '        render_result = self._render_buffer(self._buffer)\n        del self._buffer[:]\n',
  '        del self._buffer[:]\n        render_result = self._render_buffer(self._buffer)\n'),
 ("M8 simplify drops the last segment", "rich/segment.py",
  '                yield last_segment\n                last_segment = segment\n        yield last_segment\n',
  '                yield last_segment\n                last_segment = segment\n'),
 ("M9 export_text clear condition inverted", "rich/console.py",
  '                )\n            if clear:\n                del self._record_buffer[:]\n        return text\n',
  '                )\n            if not clear:\n                del self._record_buffer[:]\n        return text\n'),
 ("M10 styled export renders with the console colour system", "rich/console.py",
  '                    (style.render(text) if style else text)',
  '                    (style.render(text, color_system=self._color_system) if style else text)'),
 ("M11 end_capture does not leave the buffer context", "rich/console.py",
  '        del self._buffer[:]\n        self._exit_buffer()\n        return render_result',
  '        del self._buffer[:]\n        return render_result'),
 ("M12 record only when writing to the file (not for captures)", "rich/console.py",
  '        if self.record:\n            with self._record_buffer_lock:',
  '        if self.record and self._buffer_index == 0:\n            with self._record_buffer_lock:'),
 ("M13 styled export drops links", "rich/console.py",
  '                    (style.render(text) if style else text)',
  '                    (style.render(text, legacy_windows=True) if style else text)'),
 ("M14 html export skips empty-rule spans text (style falsy check on rule)", "rich/console.py",
  "                        text = f'<span style=\"{rule}\">{text}</span>' if rule else text",
  "                        text = f'<span style=\"{rule}\">{text}</span>' if rule else ''"),
]
only = sys.argv[1:]
for name, f, old, new in M:
    if only and not any(name.startswith(o + " ") for o in only):
        continue
    path = os.path.join(WT, f)
    subprocess.run(["git", "-C", WT, "checkout", "--", "."], check=True)
    src = open(path).read()
    if src.count(old) != 1:
        print("!!", name, "pattern count", src.count(old)); continue
    open(path, "w").write(src.replace(old, new))
    env = dict(os.environ, VF_REPO=WT, VF_WORKERS=os.environ.get("VF_WORKERS", "6"))
    r = subprocess.run(["/venv/bin/python", "-m", "vf", "check", "C15", "--tier", "quick"], cwd="/verif",
                       env=env, capture_output=True, text=True)
    keys = re.findall(r"key=(\S+) cases=(\d+)", r.stdout)
    tail = r.stdout.strip().splitlines()[-1] if r.stdout.strip() else r.stderr[-500:]
    print("%s -> rc=%d keys=%s\n    %s" % (name, r.returncode, keys, tail), flush=True)
subprocess.run(["git", "-C", WT, "checkout", "--", "."], check=True)
