"""mutation demonstrations for C05 (scratch; deleted at the end)"""
import os
import subprocess
import sys
import time

WT = "/tmp/wt_c05"
MUTS = [
    ("M1 pad_left forgets to shift spans", "rich/text.py",
     """            self.plain = f"{character * count}{self.plain}"
            _Span = Span
            self._spans[:] = [
                _Span(start + count, end + count, style)
                for start, end, style in self._spans
            ]
""", """            self.plain = f"{character * count}{self.plain}"
"""),
    ("M2 right_crop clips spans one too early", "rich/text.py",
     """        max_offset = len(self.plain) - amount
        _Span = Span""", """        max_offset = len(self.plain) - amount - 1
        _Span = Span"""),
    ("M3 append(str) reads offset after bumping _length", "rich/text.py",
     """                offset = len(self)
                text_length = len(text)
                if style is not None:
                    self._spans.append(Span(offset, offset + text_length, style))
                self._length += text_length""",
     """                text_length = len(text)
                self._length += text_length
                offset = len(self)
                if style is not None:
                    self._spans.append(Span(offset, offset + text_length, style))"""),
    ("M4 _trim_spans keeps the old span end", "rich/text.py",
     """                else _Span(span.start, min(max_offset, span.end), span.style)
            )
            for span in self._spans
            if span.start < max_offset
        ]

    def pad(""", """                else span
            )
            for span in self._spans
            if span.start < max_offset
        ]

    def pad("""),
    ("M5 expand_tabs off by one", "rich/text.py",
     "spaces = tab_size - ((pos - 1) % tab_size) - 1", "spaces = tab_size - (pos % tab_size) - 1"),
    ("M6 split allow_blank inverted", "rich/text.py",
     "if not allow_blank and text.endswith(separator):", "if allow_blank and text.endswith(separator):"),
    ("M7 join advances the offset before shifting the spans", "rich/text.py",
     """            extend_spans(
                _Span(offset + start, offset + end, style)
                for start, end, style in text._spans
            )
            offset += len(text)""", """            offset += len(text)
            extend_spans(
                _Span(offset + start, offset + end, style)
                for start, end, style in text._spans
            )"""),
    ("M8 backspace no longer stripped", "rich/control.py", "    8,  # Backspace\n", ""),
    ("M9 copy() drops the spans", "rich/text.py", "        copy_self._spans[:] = self._spans\n", ""),
    ("M10 ellipsis truncation one cell too wide", "rich/text.py",
     'self.plain = set_cell_size(self.plain, max_width - 1) + "…"', 'self.plain = set_cell_size(self.plain, max_width) + "…"'),
    ("M11 Span.split boundary > instead of >=", "rich/text.py",
     """        if offset >= self.end:
            return self, None""", """        if offset > self.end:
            return self, None"""),
    ("M12 plain setter trims on growth instead of shrink", "rich/text.py",
     "if old_length > self._length:", "if old_length < self._length:"),
    ("M13 Lines.pop pops the first line", "rich/containers.py", "def pop(self, index=-1)", "def pop(self, index=0)"),
    ("M14 append_text offsets spans by the argument's length", "rich/text.py",
     """        _Span = Span
        text_length = self._length
        if text.style is not None:
            self._spans.append(_Span(text_length, text_length + len(text), text.style))
        self._text.append(text.plain)""", """        _Span = Span
        text_length = len(text)
        if text.style is not None:
            self._spans.append(_Span(text_length, text_length + len(text), text.style))
        self._text.append(text.plain)"""),
]


def sh(*a, **k):
    return subprocess.run(a, capture_output=True, text=True, **k)


def main():
    which = sys.argv[1:]
    for name, path, old, new in MUTS:
        if which and name.split()[0] not in which:
            continue
        sh("git", "-C", WT, "checkout", "--", ".")
        r = sh("git", "-C", WT, "apply", "/verif/.c05_fix.diff")
        assert r.returncode == 0, r.stderr
        p = os.path.join(WT, path)
        s = open(p, encoding="utf-8").read()
        assert s.count(old) == 1, (name, s.count(old))
        open(p, "w", encoding="utf-8").write(s.replace(old, new))
        t0 = time.time()
        env = dict(os.environ, VF_REPO=WT, VF_WORKERS=os.environ.get("VF_WORKERS", "6"), VF_C05_CAP="3000")
        r = sh("/venv/bin/python", "-m", "vf", "check", "C05", "--tier", "quick", cwd="/verif", env=env)
        keys = [l.strip() for l in r.stdout.splitlines() if l.strip().startswith("key=")]
        viol = sum(1 for l in r.stdout.splitlines() if l.startswith("VIOLATION"))
        last = r.stdout.strip().splitlines()[-1] if r.stdout.strip() else r.stderr[-300:]
        print("%s | exit=%d VIOLATION lines=%d wall=%.0fs\n   %s\n   %s" % (
            name, r.returncode, viol, time.time() - t0, "\n   ".join(keys[:8]), last), flush=True)
    sh("git", "-C", WT, "checkout", "--", ".")


main()
