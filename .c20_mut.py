import subprocess, sys, os, re
WT="/tmp/wt_c20"
FIX=("rich/console.py","self.console.push_theme(self.theme)\n","self.console.push_theme(self.theme, inherit=self.inherit)\n")
MUTS=[
 ("M1 pop without rebinding get","rich/theme.py","        self._entries.pop()\n        self.get = self._entries[-1].get\n","        self._entries.pop()\n"),
 ("M2 push merges with swapped operands","rich/theme.py","{**self._entries[-1], **theme.styles}","{**theme.styles, **self._entries[-1]}"),
 ("M3 base-pop guard off by one","rich/theme.py","if len(self._entries) == 1:","if len(self._entries) == 0:"),
 ("M4 push updates the entry below in place","rich/theme.py","""        styles = (
            {**self._entries[-1], **theme.styles} if inherit else theme.styles.copy()
        )
""","""        if inherit:
            styles = self._entries[-1]
            styles.update(theme.styles)
        else:
            styles = theme.styles.copy()
"""),
 ("M5 get_style: 'is None' -> falsy test","rich/console.py","            if style is None:\n                style = Style.parse(name)","            if not style:\n                style = Style.parse(name)"),
 ("M6 ThemeContext.__exit__ pops only on clean exit","rich/console.py","    def __exit__(self, exc_type, exc_val, exc_tb) -> None:\n        self.console.pop_theme()","    def __exit__(self, exc_type, exc_val, exc_tb) -> None:\n        if exc_type is None:\n            self.console.pop_theme()"),
 ("M7 push_theme inherit test inverted","rich/theme.py","if inherit else theme.styles.copy()","if not inherit else theme.styles.copy()"),
 ("M8 push without rebinding get","rich/theme.py","        self._entries.append(styles)\n        self.get = self._entries[-1].get\n","        self._entries.append(styles)\n"),
 ("M9 base pop returns silently","rich/theme.py",'            raise ThemeStackError("Unable to pop base theme")','            return'),
 ("M10 pop rebinds to the bottom entry","rich/theme.py","        self._entries.pop()\n        self.get = self._entries[-1].get","        self._entries.pop()\n        self.get = self._entries[0].get"),
 ("M11 from_file drops inherit","rich/theme.py","theme = Theme(styles, inherit=inherit)","theme = Theme(styles)"),
 ("M12 Console.push_theme drops inherit","rich/console.py","self._theme_stack.push_theme(theme, inherit=inherit)","self._theme_stack.push_theme(theme)"),
 ("M13 get_style ignores default","rich/console.py","            if default is not None:\n                return self.get_style(default)\n",""),
 ("M14 config writes repr of the style","rich/theme.py",'f"{name} = {style}"','f"{name} = {style!r}"'),
 ("M15 Style.__str__ drops 'not' for italic","rich/style.py",'append("italic" if self.italic else "not italic")','append("italic")'),
]
def sub(path, old, new):
    p=os.path.join(WT,path); s=open(p).read()
    assert s.count(old)==1, (path, old, s.count(old))
    open(p,"w").write(s.replace(old,new))
only = sys.argv[1:]
for name,path,old,new in MUTS:
    if only and name.split()[0] not in only: continue
    subprocess.run(["git","-C",WT,"checkout","--","."],check=True)
    sub(*FIX); sub(path,old,new)
    env=dict(os.environ, VF_REPO=WT, VF_WORKERS="6")
    r=subprocess.run(["/venv/bin/python","-m","vf","check","C20","--tier","quick"],cwd="/verif",env=env,capture_output=True,text=True)
    keys=re.findall(r"key=(\S+) cases=(\d+)", r.stdout)
    last=r.stdout.strip().splitlines()[-1] if r.stdout.strip() else r.stderr[-300:]
    print("%s -> exit %d keys=%s | %s" % (name, r.returncode, keys, last), flush=True)
subprocess.run(["git","-C",WT,"checkout","--","."],check=True)
