M=".c08_mut.py"
/venv/bin/python $M align-ceil rich/align.py "left = excess_space // 2" "left = (excess_space + 1) // 2" OFFICIAL
/venv/bin/python $M tree-guide3 rich/tree.py '("    ", "│   ", "├── ", "└── "),' '("    ", "│   ", "├─ ", "└── "),' OFFICIAL
/venv/bin/python $M panel-title-w3 rich/panel.py "title_text.align(self.title_align, width - 4, character=box.top)" "title_text.align(self.title_align, width - 3, character=box.top)" OFFICIAL
/venv/bin/python $M pbar-half rich/progress_bar.py 'remaining_bars = width - bar_count - half_bar_count' 'remaining_bars = width - bar_count' OFFICIAL
/venv/bin/python $M cols-r2l rich/columns.py "            if right_to_left:
                row = row[::-1]" "            if right_to_left and False:
                row = row[::-1]" OFFICIAL
/venv/bin/python $M padding-swap rich/padding.py 'left = Segment(" " * self.left, style) if self.left else None' 'left = Segment(" " * self.right, style) if self.left else None' OFFICIAL
/venv/bin/python $M constrain-max rich/constrain.py 'child_options = options.update(width=min(self.width, options.max_width))' 'child_options = options.update(width=max(self.width, options.max_width))' OFFICIAL
/venv/bin/python $M rule-count rich/rule.py 'rule_text = Text(characters * ((width // chars_len) + 1), self.style)' 'rule_text = Text(characters * (width // chars_len), self.style)' OFFICIAL
/venv/bin/python $M tree-levels rich/tree.py "levels[-1] = make_guide(
                    SPACE if last else CONTINUE, levels[-1].style or null_style
                )" "levels[-1] = make_guide(
                    CONTINUE if last else SPACE, levels[-1].style or null_style
                )" OFFICIAL
/venv/bin/python $M styled-post rich/styled.py 'segments = Segment.apply_style(rendered_segments, style)' 'segments = Segment.apply_style(rendered_segments, post_style=style)' OFFICIAL
