import sys
import vf.checks.c04 as m
m.CAP_S["thorough"] = 6 * 3600
from vf import runner
sys.exit(runner.cmd_check("C04", "thorough", quiet=True))
