import io, sys
sys.path.insert(0, "/repo")
from rich.console import Console
from rich.rule import Rule
from rich.panel import Panel
from rich.padding import Padding
from rich.text import Text
from rich.cells import cell_len
from rich.segment import Segment
from rich import box
class AF(io.StringIO):
    encoding="ascii"
def con(kind="utf8", cs="truecolor", nc=False):
    return Console(file=AF() if kind=="ascii" else io.StringIO(), width=200, height=50, force_terminal=True, color_system=cs, legacy_windows=kind=="legacy", no_color=nc, _environ={})
def rl(c, r, W):
    segs=list(c.render(r, c.options.update(width=W)))
    s="".join(x.text for x in segs if not x.is_control)
    return s.split("\n")
c=con()
for title in ("t","あ t","long title here"):
  for al in ("center","left","right"):
   for pad in (0,(0,1)):
    for ex in (True,False):
      for W in range(3,12):
        ls=rl(c,Panel(Text("ab"),title=title,title_align=al,padding=pad,expand=ex),W)[:-1]
        ws=[cell_len(l) for l in ls]
        flag = "RAGGED" if len(set(ws))!=1 else ""
        print(repr(title),al,pad,ex,W,ls[0],ws,flag)
