#!/venv/bin/python
"""Writes the seed-agent prompts for round N to /tmp/mtools/promptN_CNN.txt (and copies tools/baseline.py there:
seed agents may not read /verif).  usage: tools/mkprompts.py <N> [IDs...]
A prompt holds only the property text from properties.jsonl, the rules for a seed, and one-line summaries of the
seeds kept so far for that property (so that a new round finds new mechanisms)."""
import glob, json, os, shutil, sys
ROOT = os.path.dirname(os.path.dirname(os.path.abspath(__file__)))
N = sys.argv[1]
want = [x.upper() for x in sys.argv[2:]]
os.makedirs("/tmp/mtools", exist_ok=True)
shutil.copy(os.path.join(ROOT, "tools", "baseline.py"), "/tmp/mtools/baseline.py")
props = [json.loads(l) for l in open(os.path.join(ROOT, "properties.jsonl")) if l.strip()]
IDEAS = ("Ideas that were used rarely or never so far: a falsy-zero slip (`if x:` where `is not None` is meant) on a width/count/"
         "offset that is legitimately 0; an option accepted by a wrapper but not forwarded to the inner call; the wrong one of two "
         "similarly named variables; a value returned by reference that the callee later mutates (or that every caller shares); "
         "state built lazily on first use and published before it is complete; state carried from one call / line / instance to the "
         "next (class attributes, default arguments, module globals, memo keys missing a field); an operation that is refused with "
         "its documented error but has already changed something; cleanup moved out of a finally block; integer vs float division or "
         "rounding at exactly .5; sort stability or order of equal elements; a generator consumed twice; copy() / __copy__ that shares "
         "a mutable member; __eq__ without __hash__; re-entrancy (a renderable that prints or renders on the same console while it is "
         "being rendered); valid input produced by OTHER programs (not by rich) or unusual-but-legal option values; behaviour that "
         "differs only on the ascii-only / legacy-windows / no-colour / non-terminal / record configuration; off-by-one only for "
         "double-width or zero-width characters; two threads being the first callers at once. "
         "Round 5 additions: an interaction of TWO features that each work alone (links x wrapping, emoji x escape, justify x "
         "overflow x no_wrap, end= x record, soft_wrap x crop, height x vertical overflow); a Python-level subtlety (mutable default "
         "argument, `is` vs `==` on ints/strs, bool-is-int confusion, negative index or slice step, str.splitlines vs split('\\n'), "
         "lower vs casefold, dict ordering, `or` default swallowing 0 / '' / empty Style, shadowed loop variable, late-binding closure, "
         "iterator exhausted by an earlier membership test, functools.lru_cache on a method with an unhashable or mutable argument, "
         "__slots__/dataclass replace dropping a field); a boundary exactly AT equality (width == content, last element, first element, "
         "single element, count == limit); an early-return that skips a later reset/bookkeeping step; a value computed before a "
         "mutation but used after it; a change that is only wrong on the SECOND/third call or only for the second of two items.")
for p in props:
    pid = p["id"]
    if want and pid not in want:
        continue
    wt = "/tmp/seed%s_c%s" % (N, pid[1:].lower())
    prior = []
    for f in sorted(glob.glob(os.path.join(ROOT, "seeded", pid + "-*", "meta.json"))):
        try:
            m = json.load(open(f))
        except Exception:
            continue
        s = (m.get("summary") or m.get("description") or os.path.basename(os.path.dirname(f))).replace("\n", " ")
        prior.append("  - " + s[:170])
    mech = "; ".join("%s (%s)" % (m["name"], m["where"]) for m in p.get("anchors", {}).get("mechanism", []))
    text = f"""You are helping to evaluate a verification framework for the Python library `rich` by seeding realistic bugs. You work ONLY inside your own scratch git worktree {wt} (create it with `git -C /repo worktree add --detach {wt}`); never edit /repo itself; do NOT read, list or use anything under /verif (the framework under evaluation must stay unknown to you so that your seeds are independent of it).

The property of `rich` that your seeded bugs must break:

  Title: {p['title']}
  Statement: {p['statement']}
  Scope (what is quantified over): {p['quantifier']['text']}
  Mechanisms in the code that are meant to make it hold: {mech}

Task: produce 3 DIFFERENT seeded bugs (different mechanisms / code sites), each an independent change to the library source (rich/*.py) against the unchanged tree, such that for each one:
 1. the code still imports and runs;
 2. the existing test suite still passes exactly as before: `/venv/bin/python /tmp/mtools/baseline.py {wt}` must print `stable_still_passing=430` and exit 0 (11 upstream tests fail in this sandbox with or without your change; that tool accounts for it). Run it for every seed;
 3. the change breaks the property above (as stated - stay inside its statement and scope), but only when something specific happens — a particular thread interleaving, a fault at a particular point, a multi-step sequence of operations, an unusual input/option combination, or two cooperating sites that each look fine alone. NOT something that ordinary use would expose at once, and not a crash on the most common path. Think of the kind of slip a maintainer could make in a refactoring or "optimisation".
 4. you provide a demonstration: `demo.py`, a small self-contained program that, run as `PYTHONPATH={wt} /venv/bin/python demo.py`, exits with status 1 and prints what went wrong WITH your change, and run as `PYTHONPATH=/repo /venv/bin/python demo.py` (unchanged code) exits 0. The demo must be deterministic (if the bug needs an interleaving, force it deterministically, e.g. with events/monkeypatched hooks/a custom file object, not with sleeps and luck). Verify both runs and show `rich.__file__` to be sure which tree was imported.

For seed k (k=1..3) leave in {wt}/_seed/k/: `patch.diff` (output of `git -C {wt} diff -- rich` for that seed alone), `demo.py`, and `meta.json` with keys property ("{pid}"), summary, needs_to_manifest, files_changed. Do `git -C {wt} checkout -- rich` between seeds so each patch applies to the unchanged tree. Leave the worktree in place when you finish (I will collect the seeds and remove it), with the source reset to unchanged.

IMPORTANT: earlier rounds already produced the seeds listed below; do NOT repeat them or near-variants, find DIFFERENT code sites and DIFFERENT failure mechanisms. {IDEAS}
Already used for this property:
{chr(10).join(prior) if prior else '  (none)'}
Also note: line numbers in the mechanism list above may be slightly off because the tree received bug fixes since they were written.

Final report (keep it short): for each seed, one paragraph: the diff in a few lines, what it needs in order to manifest, the baseline tool's line and both demo exit codes."""
    open("/tmp/mtools/prompt%s_%s.txt" % (N, pid), "w").write(text)
    print(pid, len(prior), "prior seeds")
