#!/venv/bin/python
"""Regenerates /verif/MANIFEST.json from the check modules that exist.
A property without a module is listed under not_applicable with the reason given in
PENDING below (kept current by hand)."""
import importlib, json, os, sys
sys.path.insert(0, os.path.dirname(os.path.dirname(os.path.abspath(__file__))))
ROOT = os.path.dirname(os.path.dirname(os.path.abspath(__file__)))
props = [json.loads(l) for l in open(os.path.join(ROOT, "properties.jsonl"))]
PENDING = {}
# only modules reviewed and silent on the unchanged tree are claimed
CLAIMED = set(open(os.path.join(ROOT, "tools", "claimed.txt")).read().split())
checks, na = [], []
for p in props:
    pid = p["id"]
    path = os.path.join(ROOT, "vf", "checks", pid.lower() + ".py")
    if not os.path.exists(path) or pid not in CLAIMED:
        na.append({"property_id": pid, "reason": PENDING.get(pid, "check not built yet (design in DESIGN.md section 3); not claimed until its module exists and is silent on the unchanged tree")})
        continue
    m = importlib.import_module("vf.checks." + pid.lower())
    if getattr(m, "DISABLED", None):
        na.append({"property_id": pid, "reason": m.DISABLED})
        continue
    checks.append({
        "property_id": pid,
        "quick_cmd": "/venv/bin/python -m vf check %s --tier quick" % pid,
        "thorough_cmd": "/venv/bin/python -m vf check %s --tier thorough" % pid,
        "evidence_file": "/verif/evidence/%s.json" % pid,
        "replay_cmd_template": "/venv/bin/python -m vf replay {path}",
        "engine": getattr(m, "ENGINE", "E1"),
        "level_claimed": {"category": m.LEVEL, "text": m.LEVEL_TEXT, "design_ref": "DESIGN.md section 3, " + pid},
        "level_note": m.LEVEL_NOTE,
        "technique": m.TECHNIQUE,
    })
man = {
    "version": 1,
    "setup_cmd": "/venv/bin/python -m vf selftest",
    "hooks": {
        "guard": "RICH_VERIF",
        "enable": "none needed: no instrumentation lives in /repo; checks import /repo's working tree directly (editable install) and use public constructor seams plus module-global rebinding from the harness process",
        "baseline_off_cmd": "cd /repo && /venv/bin/python -m pytest -ra -q -p no:cacheprovider --timeout=900 --continue-on-collection-errors",
        "source_commits": [],
        "add_only": True,
    },
    "engines": [
        {"name": "E1", "path": "vf/par.py + vf/checks/*", "kind_free_text": "bounded-exhaustive input enumerator executed on the real code, sharded over a fork pool"},
        {"name": "E2", "path": "vf/bfs.py", "kind_free_text": "explicit-state BFS over operation histories of the real object with a lock-step reference model and canonical-state dedup"},
        {"name": "E3", "path": "vf/sched.py", "kind_free_text": "stateless preemption-bounded schedule explorer over real threads (baton scheduler, cooperative locks/events/threads)"},
        {"name": "E4", "path": "vf/fault.py", "kind_free_text": "fault enumerator: exception injected at every render-call index / block position of every explored history"},
    ],
    "checks": checks,
    "not_applicable": na,
    "notes": "All checks: python -m vf check <ID> --tier quick|thorough (cwd=/verif). known_findings.txt lists recorded and repaired defects. See DESIGN.md.",
}
for e in man["engines"]:
    e["serves_properties"] = [c["property_id"] for c in checks if e["name"] in c["engine"]]
json.dump(man, open(os.path.join(ROOT, "MANIFEST.json"), "w"), indent=1)
print("checks:", [c["property_id"] for c in checks], "not_applicable:", [n["property_id"] for n in na])
