#!/bin/sh
# usage: tools/seedround.sh <prefix e.g. seed3> [extra check ids for every batch]
# runs tools/seedbatch.py for every /tmp/<prefix>_cNN that has a _seed dir, 5 at a time; prints one line per seed
prefix=$1; shift
cd /verif
ls -d /tmp/${prefix}_c* 2>/dev/null | while read d; do
  [ -d "$d/_seed" ] || continue
  pid=$(basename $d | sed "s/${prefix}_c/C/")
  echo "$d $pid"
done | xargs -P ${SEED_PAR:-5} -L 1 sh -c '/venv/bin/python tools/seedbatch.py $0 $1 2>&1 | cut -c1-260'
