#!/venv/bin/python
"""Confirm a seeded change and run checks against it, all in a scratch worktree.
usage: tools/seedcheck.py <dir with patch.diff [demo.py]> <CHECK-ID>... [--tier quick] [--skip-baseline]
Prints: baseline ok?, demo exit codes (changed / unchanged), per check: exit code + new finding keys."""
import json, os, subprocess, sys, shutil, tempfile
args = [a for a in sys.argv[1:] if not a.startswith("--")]
flags = [a for a in sys.argv[1:] if a.startswith("--")]
seed, checks = args[0], args[1:]
tier = "thorough" if "--thorough" in flags else "quick"
wt = tempfile.mkdtemp(prefix="sv_", dir="/tmp")
os.rmdir(wt)
def sh(cmd, **kw):
    return subprocess.run(cmd, shell=True, capture_output=True, text=True, **kw)
r = sh("git -C /repo worktree add --detach %s" % wt)
assert r.returncode == 0, r.stderr
out = {"seed": seed}
try:
    r = sh("git -C %s apply %s" % (wt, os.path.abspath(os.path.join(seed, "patch.diff"))))
    if r.returncode != 0:
        print("PATCH DOES NOT APPLY:", r.stderr); sys.exit(2)
    if "--skip-baseline" not in flags:
        r = sh("/venv/bin/python /verif/tools/baseline.py %s" % wt)
        out["baseline"] = r.stdout.strip().splitlines()[-1] if r.returncode == 0 else "BROKEN: " + r.stdout[-400:]
    demo = os.path.join(os.path.abspath(seed), "demo.py")
    if os.path.exists(demo):
        a = sh("PYTHONPATH=%s /venv/bin/python %s" % (wt, demo), cwd="/tmp")
        b = sh("PYTHONPATH=/repo /venv/bin/python %s" % demo, cwd="/tmp")
        out["demo_changed_exit"] = a.returncode
        out["demo_unchanged_exit"] = b.returncode
        out["demo_changed_out"] = (a.stdout + a.stderr)[-300:]
    for c in checks:
        env = dict(os.environ, VF_REPO=wt)
        r = subprocess.run(["/venv/bin/python", "-m", "vf", "check", c, "--tier", tier, "--quiet"], cwd="/verif", env=env, capture_output=True, text=True)
        keys = []
        try:
            ev = json.load(open("/verif/evidence/%s.json" % c))
            keys = ev["coverage"]["finding_keys_new"]
            wall = ev["wall_s"]
            exhaustive = ev["coverage"]["exhaustive"]
        except Exception as e:
            wall = exhaustive = None
        out[c] = {"exit": r.returncode, "new_keys": keys[:8], "n_keys": len(keys), "wall": wall, "exhaustive": exhaustive, "err": r.stderr[-300:] if r.returncode not in (0, 1) else ""}
finally:
    sh("git -C /repo worktree remove --force %s" % wt)
    shutil.rmtree(wt, ignore_errors=True)
print(json.dumps(out, indent=1, ensure_ascii=False))
