#!/venv/bin/python
"""Keep a confirmed seeded change under /verif/seeded/<name>/.
usage: tools/keepseed.py <src dir> <name> '<json with what I ran / result>'"""
import json, os, shutil, sys
src, name, ran = sys.argv[1], sys.argv[2], json.loads(sys.argv[3])
root = os.path.dirname(os.path.dirname(os.path.abspath(__file__)))
dst = os.path.join(root, "seeded", name)
os.makedirs(dst, exist_ok=True)
shutil.copy(os.path.join(src, "patch.diff"), dst)
for f in os.listdir(src):
    if f.startswith("demo") and f.endswith(".py"):
        shutil.copy(os.path.join(src, f), dst)
meta = {}
if os.path.exists(os.path.join(src, "meta.json")):
    meta = json.load(open(os.path.join(src, "meta.json")))
meta["verification"] = ran
json.dump(meta, open(os.path.join(dst, "meta.json"), "w"), indent=1, ensure_ascii=False)
print("kept", dst)
