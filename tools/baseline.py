#!/venv/bin/python
"""Run the pinned baseline suite on a repo dir (default /repo) and compare with
/root/.vp/BASELINE.json stable_pass. Exit 0 iff every stable test still passes."""
import json, subprocess, sys, tempfile, os
import xml.etree.ElementTree as ET
repo = sys.argv[1] if len(sys.argv) > 1 else "/repo"
base = json.load(open("/root/.vp/BASELINE.json"))
stable = set(base["stable_pass"])
fd, path = tempfile.mkstemp(suffix=".xml"); os.close(fd)
env = dict(os.environ)
env.pop("RICH_VERIF", None)
env["PYTHONPATH"] = repo
subprocess.run(["/venv/bin/python", "-m", "pytest", "-q", "-p", "no:cacheprovider", "--timeout=900",
                "--continue-on-collection-errors", "--junitxml=" + path, "-x" if False else "-q"],
               cwd=repo, env=env, stdout=subprocess.DEVNULL, stderr=subprocess.DEVNULL)
passed = set()
for tc in ET.parse(path).getroot().iter("testcase"):
    if not any(ch.tag in ("failure", "error", "skipped") for ch in tc):
        passed.add(tc.get("classname") + "::" + tc.get("name"))
os.unlink(path)
missing = sorted(stable - passed)
print("stable=%d passed_now=%d stable_still_passing=%d" % (len(stable), len(passed), len(stable & passed)))
for m in missing[:20]:
    print("BROKEN:", m)
sys.exit(1 if missing else 0)
