#!/venv/bin/python
"""Confirm and check all seeds under <root>/_seed/<k>/ for property <PID> (and extra checks), keep the caught ones.
usage: tools/seedbatch.py <root> <PID> [extra check ids...]   -> prints one line per seed; caught+confirmed seeds
are copied to /verif/seeded/<PID>-<slug>/ ; misses are only reported."""
import json, os, re, subprocess, sys
root, pid, extra = sys.argv[1], sys.argv[2], sys.argv[3:]
here = os.path.dirname(os.path.abspath(__file__))
for k in sorted(os.listdir(os.path.join(root, "_seed"))):
    d = os.path.join(root, "_seed", k)
    if not os.path.exists(os.path.join(d, "patch.diff")):
        continue
    r = subprocess.run([os.path.join(here, "seedcheck.py"), d, pid] + extra, capture_output=True, text=True)
    try:
        out = json.loads(r.stdout[r.stdout.index("{"):])
    except Exception:
        print(pid, k, "UNPARSABLE", r.stdout[:300].replace("\n", " "), r.stderr[-200:])
        continue
    ok = "still_passing=430" in out.get("baseline", "") and out.get("demo_changed_exit") == 1 and out.get("demo_unchanged_exit") == 0
    caught = [(c, v["new_keys"]) for c, v in out.items() if isinstance(v, dict) and v.get("exit") == 1]
    capped = [c for c, v in out.items() if isinstance(v, dict) and v.get("exhaustive") is False]
    meta = {}
    try:
        meta = json.load(open(os.path.join(d, "meta.json")))
    except Exception:
        pass
    summ = (meta.get("summary") or "")
    slug = re.sub(r"[^a-z0-9]+", "-", summ.lower())[:48].strip("-") or "seed%s" % k
    name = "%s-%s" % (pid, slug)
    status = "CONFIRMED" if ok else "NOT-CONFIRMED(%s,%s,%s)" % (out.get("baseline", "")[-30:], out.get("demo_changed_exit"), out.get("demo_unchanged_exit"))
    print(pid, k, status, "CAUGHT by %s" % caught if caught else "MISSED", "capped=%s" % capped if capped else "", "|", summ[:110].replace("\n", " "), flush=True)
    if ok and caught:
        ran = {"confirmed_by": "tools/seedcheck.py in a scratch worktree: patch applies to /repo HEAD, tools/baseline.py reports stable_still_passing=430, demo.py exits 1 with the patch and 0 without",
               "detected_by": " and ".join("%s quick" % c for c, _ in caught),
               "finding_keys": [key for _, keys in caught for key in keys][:4]}
        subprocess.run([os.path.join(here, "keepseed.py"), d, name, json.dumps(ran)], capture_output=True)
