#!/venv/bin/python
"""Run every claimed check (quick by default) on /repo and summarise. usage: tools/runall.py [--tier thorough] [ids...]"""
import json, os, subprocess, sys, time
root = os.path.dirname(os.path.dirname(os.path.abspath(__file__)))
tier = "thorough" if "--thorough" in sys.argv else "quick"
ids = [a for a in sys.argv[1:] if not a.startswith("--")] or open(os.path.join(root, "tools", "claimed.txt")).read().split()
bad = 0
for pid in (ids if "--keep-order" in sys.argv else sorted(ids)):
    t0 = time.time()
    r = subprocess.run(["/venv/bin/python", "-m", "vf", "check", pid, "--tier", tier, "--quiet"], cwd=root, capture_output=True, text=True)
    try:
        ev = json.load(open(os.path.join(root, "evidence", pid + ".json")))
        c = ev["coverage"]
        info = "evals=%d distinct=%d exhaustive=%s known=%d" % (c["evaluations"], c["distinct_outcomes"], c["exhaustive"], len(c["finding_keys_known"]))
        new = c["finding_keys_new"]
    except Exception as e:
        info, new = "no evidence: %r" % e, []
    print("%s exit=%d %.0fs %s %s" % (pid, r.returncode, time.time() - t0, info, ("NEW: %s" % new) if new else ""), flush=True)
    if r.returncode not in (0,):
        bad += 1
        if r.returncode == 2:
            print(r.stderr[-600:])
sys.exit(1 if bad else 0)
