#!/venv/bin/python
"""Prints a markdown table of the seeded changes kept under /verif/seeded (from their meta.json)."""
import json, os
root = os.path.join(os.path.dirname(os.path.dirname(os.path.abspath(__file__))), "seeded")
print("| seeded change | property | what it needs to manifest | caught by | finding keys |")
print("|---|---|---|---|---|")
for name in sorted(os.listdir(root)):
    mp = os.path.join(root, name, "meta.json")
    if not os.path.exists(mp):
        continue
    m = json.load(open(mp))
    v = m.get("verification", {})
    needs = (m.get("needs_to_manifest") or m.get("what_it_needs_to_manifest") or "").replace("\n", " ").replace("|", "/")
    if len(needs) > 220:
        needs = needs[:217] + "..."
    keys = ", ".join("`%s`" % k for k in v.get("finding_keys", [])[:3])
    print("| %s | %s | %s | %s | %s |" % (name, m.get("property", name.split("-")[0]), needs, v.get("detected_by", "?").replace("|", "/"), keys))
