#!/venv/bin/python
"""Port a kept seed whose patch.diff no longer applies to /repo HEAD (because a later fix: commit touched the same lines).
Finds the newest /repo commit the patch applies to, commits it there in a scratch worktree and cherry-picks it onto HEAD.
usage: tools/rebase_seed.py <seeddir>...   -> rewrites patch.diff when the pick is clean; prints CONFLICT otherwise
(the worktree is left at /tmp/rebase_<name> for a manual port in that case)."""
import os, subprocess, sys
def git(*a, cwd="/repo", check=True):
    r = subprocess.run(["git"] + list(a), cwd=cwd, capture_output=True, text=True)
    if check and r.returncode:
        raise SystemExit("git %s failed: %s" % (" ".join(a), r.stderr))
    return r
head = git("rev-parse", "HEAD").stdout.strip()
commits = git("log", "--format=%H", "-80").stdout.split()
for d in sys.argv[1:]:
    d = os.path.abspath(d.rstrip("/"))
    patch = os.path.join(d, "patch.diff")
    name = os.path.basename(d)
    if git("apply", "--check", patch, check=False).returncode == 0:
        print(name, "applies already"); continue
    wt = "/tmp/rebase_" + name
    base = None
    for c in commits:
        git("worktree", "remove", "--force", wt, check=False)
        git("worktree", "add", "-q", "--detach", wt, c)
        if git("apply", "--check", patch, cwd=wt, check=False).returncode == 0:
            base = c; break
    if base is None:
        print(name, "NO-BASE"); git("worktree", "remove", "--force", wt, check=False); continue
    git("apply", patch, cwd=wt)
    git("-c", "user.name=x", "-c", "user.email=x@x", "commit", "-qam", "seed", cwd=wt)
    seed = git("rev-parse", "HEAD", cwd=wt).stdout.strip()
    git("checkout", "-q", "--detach", head, cwd=wt)
    r = git("-c", "user.name=x", "-c", "user.email=x@x", "cherry-pick", seed, cwd=wt, check=False)
    if r.returncode:
        print(name, "CONFLICT base=%s worktree=%s" % (base[:7], wt)); continue
    new = git("diff", head, "HEAD", cwd=wt).stdout
    open(patch, "w").write(new)
    git("worktree", "remove", "--force", wt)
    print(name, "ported from", base[:7])
