#!/venv/bin/python
"""Rewrites the generated blocks of DESIGN.md (findings list, seeded-change table) from
known_findings.txt and seeded/*/meta.json."""
import os, re, subprocess, sys
root = os.path.dirname(os.path.dirname(os.path.abspath(__file__)))
sys.path.insert(0, root)
from vf import findings
known, fixed = findings.load()
lines = ["| property | disposition | commit / key | what failed |", "|---|---|---|---|"]
for pid, commit, what in fixed:
    lines.append("| %s | fixed | `%s` | %s |" % (pid, commit, what.replace("|", "/")))
groups = {}
for (pid, key), what in sorted(known.items()):
    lines.append("| %s | known | `%s` | %s |" % (pid, key, what.replace("|", "/")))
findings_md = "\n".join(lines)
seeds_md = subprocess.run([sys.executable, os.path.join(root, "tools", "seedtable.py")], capture_output=True, text=True).stdout.strip()
p = os.path.join(root, "DESIGN.md")
s = open(p).read()
def put(s, tag, body):
    b, e = "<!-- BEGIN:%s -->" % tag, "<!-- END:%s -->" % tag
    if b not in s:
        return s
    i, j = s.index(b) + len(b), s.index(e)
    return s[:i] + "\n" + body + "\n" + s[j:]
s = put(s, "FINDINGS", findings_md)
s = put(s, "SEEDS", seeds_md)
open(p, "w").write(s)
print("fixed=%d known=%d" % (len(fixed), len(known)))
