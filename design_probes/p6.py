import sys
exec(open("p4.py").read().split("bad=0; tot=0")[0])
rnd.seed(11)
import itertools
from rich.padding import Padding
seen=set(); tot=0; bad=0
TX=["a","ab cd","あい","a\nbb c","","abcdefgh","x あy"]
def table_case():
    ncol=rnd.choice([1,2,3,4]); nrow=rnd.choice([0,1,2,3])
    cells=[[rnd.choice(TX) for _ in range(ncol)] for _ in range(nrow)]
    heads=[rnd.choice(["h","あ","head er",""]) for _ in range(ncol)]
    opts=dict(box=rnd.choice([box.HEAVY_HEAD, None, box.ASCII, box.SIMPLE, box.MINIMAL, box.SQUARE]), show_header=rnd.choice([True,False]), show_footer=rnd.choice([True,False]), show_edge=rnd.choice([True,False]), show_lines=rnd.choice([True,False]), leading=rnd.choice([0,0,1]), padding=rnd.choice([(0,1),0,(0,2),(1,1)]), pad_edge=rnd.choice([True,False]), collapse_padding=rnd.choice([True,False]), expand=rnd.choice([True,False]), width=rnd.choice([None,None,None,20]), min_width=rnd.choice([None,None,15]))
    colopts=[dict(justify=rnd.choice(["left","center","right","full"]), overflow=rnd.choice(["fold","crop","ellipsis"]), ratio=rnd.choice([None,None,1,2]), max_width=rnd.choice([None,None,None,3,10])) for _ in range(ncol)]
    def mk():
        t=Table(**opts)
        for h,co in zip(heads,colopts): t.add_column(h, footer=h, **co)
        for i,row in enumerate(cells): t.add_row(*row, end_section=(i==0))
        return t
    t0=mk()
    colmins=[max([2 if wide(heads[ci]) else 1]+[(2 if wide(r[ci]) else 1) for r in cells])+t0._get_padding_width(ci) for ci in range(ncol)]
    m=sum(colmins)+t0._extra_width
    return (opts,colopts,heads,cells), mk, m
for i in range(int(sys.argv[1])):
    d,mk,m=table_case()
    for W in list(range(m,m+8))+[30,60]:
        t=mk()
        try: ws,ls=render_lines(t,W)
        except Exception as e:
            k=("EXC",type(e).__name__)
            if k not in seen: seen.add(k); print("EXC",e,d,W)
            continue
        tot+=1
        if len(set(ws))>1:
            bad+=1; k=("UNEQ",d[0]["leading"], d[0]["box"] is None)
            if k not in seen: seen.add(k); print("UNEQUAL",W,m,ws,d); [print("   |"+l+"|") for l in ls[:8]]
        elif ws and d[0]["expand"] and d[0]["width"] is None and all(c["max_width"] is None for c in d[1]) and ws[0]!=W:
            bad+=1; k=("NOEXP",)
            if k not in seen: seen.add(k); print("NOT EXPANDED",W,m,ws[0],d); [print("   |"+l+"|") for l in ls[:8]]
        elif ws and max(ws)>W and d[0]["width"] is None:
            bad+=1; k=("OVER",)
            if k not in seen: seen.add(k); print("OVER",W,m,ws[0],d)
print(tot,bad)
