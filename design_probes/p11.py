import io, itertools, re, html, datetime
from rich.console import Console
from rich.text import Text
def strip_ansi(s):
    s = re.sub(r"\x1b\][^\x1b\x07]*(\x1b\\|\x07)", "", s)
    s = re.sub(r"\x1b\[[0-9;?]*[A-Za-z]", "", s)
    return s.replace("\x07","")
OPS = {
 "p_a": lambda c: c.print("a"),
 "p_amp": lambda c: c.print("<&> x", style="bold"),
 "p_mark": lambda c: c.print("[b]x[/b] [link=http://e.x/?a=1&b=2]y[/link]"),
 "p_nl": lambda c: c.print("a\nb", style="red on blue"),
 "log": lambda c: c.log("hello"),
 "rule": lambda c: c.rule("t"),
 "line": lambda c: c.line(),
 "bell": lambda c: c.bell(),
 "clear": lambda c: c.clear(),
 "cur": lambda c: c.show_cursor(False),
}
bad={}; n=0
for cs in (None,"standard","truecolor"):
  for term in (True,False):
    for L in (1,2,3):
      for hist in itertools.product(OPS, repeat=L):
        f=io.StringIO()
        c=Console(width=30, file=f, record=True, color_system=cs, force_terminal=term, _environ={}, legacy_windows=False,
                  get_datetime=lambda: datetime.datetime(2020,1,1,12,0,0))
        for op in hist: OPS[op](c)
        vis = strip_ansi(f.getvalue())
        n+=1
        t = c.export_text(clear=False)
        if t != vis: bad.setdefault(("TEXT",cs,term),(hist, t, vis))
        h = c.export_html(clear=False, code_format="{code}")
        ht = html.unescape(re.sub(r"<[^>]*>","",h))
        if ht != vis: bad.setdefault(("HTML",cs,term, hist if len(bad)<6 else None),(hist, ht, vis))
        st = strip_ansi(c.export_text(clear=False, styles=True))
        if st != vis: bad.setdefault(("STYLED",cs,term),(hist, st, vis))
print(n,len(bad))
for k,v in list(bad.items())[:14]: print(k, repr(v)[:330])
