"""Prototype: stateless preemption-bounded scheduler over real threads via sys.settrace."""
import sys, threading, io, time, os
import rich.console, rich.live, rich.progress, rich.live_render, rich.file_proxy

WL = {m.__file__ for m in (rich.console, rich.live, rich.progress, rich.live_render, rich.file_proxy)}

class Deadlock(Exception): pass
class Abort(BaseException): pass

class Sched:
    def __init__(self, prefix):
        self.prefix = list(prefix)   # list of choices (index into enabled list) at each decision point
        self.choices = []            # actual choices made
        self.points = []             # (enabled tids tuple, running tid, running_enabled)
        self.threads = {}            # tid -> record
        self.sems = {}
        self.current = None
        self.finished = set()
        self.blocked = {}            # tid -> predicate
        self.order = []
        self.error = None
        self.main_sem = threading.Semaphore(0)
        self.nsteps = 0

    # --- thread mgmt
    def spawn(self, tid, fn):
        self.sems[tid] = threading.Semaphore(0)
        def run():
            self.sems[tid].acquire()
            sys.settrace(self.tracer(tid))
            try:
                fn()
            except Abort:
                pass
            except BaseException as e:
                self.error = (tid, e)
            finally:
                sys.settrace(None)
                self.finished.add(tid)
                self.switch_from(tid, finished=True)
        t = threading.Thread(target=run, daemon=True)
        self.threads[tid] = t
        self.order.append(tid)
        t.start()

    def enabled(self):
        out = []
        for tid in self.order:
            if tid in self.finished: continue
            pred = self.blocked.get(tid)
            if pred is not None and not pred(): continue
            out.append(tid)
        return out

    def decide(self, running, running_enabled):
        en = self.enabled()
        if not en:
            return None
        # canonical order: running first if enabled
        if running_enabled and running in en:
            en = [running] + [t for t in en if t != running]
        i = len(self.choices)
        if i < len(self.prefix):
            c = self.prefix[i]
            if c >= len(en): raise RuntimeError("replay divergence")
        else:
            c = 0
        self.choices.append(c)
        self.points.append((tuple(en), running, running_enabled))
        return en[c]

    def switch_from(self, tid, finished=False):
        nxt = self.decide(tid, not finished and (self.blocked.get(tid) is None or self.blocked[tid]()))
        if nxt is None:
            if len(self.finished) == len(self.order):
                self.main_sem.release(); return
            self.error = ("deadlock", Deadlock(str(self.blocked.keys())))
            self.main_sem.release(); return
        if nxt == tid: return
        self.current = nxt
        self.sems[nxt].release()
        if not finished:
            self.sems[tid].acquire()

    def point(self, tid):
        self.nsteps += 1
        self.switch_from(tid)

    def block_until(self, tid, pred):
        self.blocked[tid] = pred
        while not pred():
            self.switch_from(tid)
            if self.error and self.error[0]=="deadlock": raise Abort()
        del self.blocked[tid]

    def tracer(self, tid):
        def glob(frame, event, arg):
            if event == "call" and frame.f_code.co_filename in WL:
                return loc
            return None
        def loc(frame, event, arg):
            if event == "line":
                self.point(tid)
            return loc
        return glob

    def run(self):
        first = self.decide(None, False)
        self.current = first
        self.sems[first].release()
        self.main_sem.acquire()

class CoopRLock:
    def __init__(self, sched_ref): self.s = sched_ref; self.owner=None; self.count=0
    def _tid(self): return threading.current_thread()._coop_tid if hasattr(threading.current_thread(), "_coop_tid") else None
    def acquire(self, blocking=True, timeout=-1):
        s = self.s[0]; tid = s.current
        if self.owner == tid: self.count += 1; return True
        s.block_until(tid, lambda: self.owner is None)
        self.owner = tid; self.count = 1; return True
    def release(self):
        self.count -= 1
        if self.count == 0: self.owner = None
    __enter__ = acquire
    def __exit__(self, *a): self.release()

class RecFile(io.StringIO):
    def __init__(self, sref): super().__init__(); self.s=sref; self.writes=[]
    def write(self, t):
        self.writes.append((self.s[0].current, t)); return super().write(t)

def explore(make, bound, limit=None):
    """make(sched_ref) -> (threads dict tid->fn, check fn)"""
    stats = {"execs":0, "viol":0}
    outcomes = {}
    def one(prefix):
        sref=[None]
        s = Sched(prefix); sref[0]=s
        fns, check = make(sref)
        for tid, fn in fns.items(): s.spawn(tid, fn)
        s.run()
        stats["execs"] += 1
        res = check(s)
        outcomes[res] = outcomes.get(res,0)+1
        return s
    def preempts_before(s, i):
        n=0
        for j in range(i):
            en, running, ren = s.points[j]
            if ren and s.choices[j] != 0: n+=1
        return n
    stack=[[]]
    while stack:
        prefix = stack.pop()
        s = one(prefix)
        if limit and stats["execs"]>=limit: break
        for i in range(len(prefix), len(s.points)):
            en, running, ren = s.points[i]
            cost = preempts_before(s, i) + (1 if ren else 0)
            if cost > bound: continue
            for alt in range(1, len(en)):
                stack.append(s.choices[:i]+[alt])
    return stats, outcomes

if __name__ == "__main__":
    from rich.console import Console, RenderGroup
    from rich.live import Live
    from rich.text import Text
    def make(sref):
        f = RecFile(sref)
        c = Console(width=20, height=10, file=f, force_terminal=True, color_system=None, _environ={}, legacy_windows=False)
        live = Live("F1", console=c, auto_refresh=False, redirect_stdout=False, redirect_stderr=False)
        live.start(); live.refresh()
        c._lock = CoopRLock(sref); c._record_buffer_lock = CoopRLock(sref)
        live._lock = CoopRLock(sref)
        def A(): c.print("P")
        def B(): live.update("G1\nG2\nG3", refresh=True)
        def check(s):
            if s.error: return ("ERR", repr(s.error))
            return tuple(w for w in f.writes[1:])
        return {"A":A,"B":B}, check
    for bound in (0,1,2):
        t0=time.time()
        stats, outcomes = explore(make, bound)
        print("bound",bound,stats,"distinct outcomes",len(outcomes), "time %.1f"%(time.time()-t0))
        if bound==1:
            for k,v in outcomes.items(): print(v, k)
