import sys, io, time, threading
import sched as S
import rich.progress
from rich.console import Console
from rich.progress import Progress

OPC = {"advance","update","reset"}
class Sched2(S.Sched):
    def tracer(self, tid):
        def glob(frame, event, arg):
            if event == "call" and frame.f_code.co_filename in S.WL:
                if frame.f_code.co_name in OPC and frame.f_code.co_filename == rich.progress.__file__:
                    frame.f_trace_opcodes = True
                return loc
            return None
        def loc(frame, event, arg):
            if event == "opcode" or (event == "line" and not frame.f_trace_opcodes):
                self.point(tid)
            return loc
        return glob
S.Sched = Sched2

def make(sref):
    clock=[0]
    def get_time():
        clock[0]+=1; return float(clock[0])
    c = Console(width=20, height=10, file=io.StringIO(), force_terminal=False, color_system=None, _environ={})
    p = Progress(console=c, auto_refresh=False, get_time=get_time, disable=True)
    t = p.add_task("t", total=10)
    p._lock = S.CoopRLock(sref)
    def A(): p.advance(t, 1)
    def B(): p.advance(t, 2)
    def check(s):
        if s.error: return ("ERR", repr(s.error))
        task = p.tasks[0]
        return (task.completed, task.speed, tuple(x.timestamp for x in task._progress))
    return {"A":A,"B":B}, check
for bound in (0,1,2):
    t0=time.time()
    stats, outcomes = S.explore(make, bound)
    print("bound",bound,stats,"outcomes",outcomes,"time %.1f"%(time.time()-t0))
