import re
from rich.cells import get_character_cell_size as cw
class Screen:
    def __init__(s, W, H):
        s.W, s.H = W, H; s.rows=[[" "]*W for _ in range(H)]; s.sb=[]; s.r=0; s.c=0; s.wrap=False; s.visible=True; s.events=[]
    def lf(s):
        if s.r == s.H-1:
            s.sb.append(s.rows.pop(0)); s.rows.append([" "]*s.W)
        else: s.r += 1
    def put(s, ch):
        w = cw(ch)
        if w == 0: return
        if s.wrap or s.c + w > s.W:
            s.c = 0; s.lf(); s.wrap=False
        s.rows[s.r][s.c] = ch
        if w == 2: s.rows[s.r][s.c+1] = ""
        s.c += w
        if s.c >= s.W: s.c = s.W-1 if w==1 else s.W-2; s.wrap=True; s.c = s.W - 1
    def feed(s, data):
        i=0
        while i < len(data):
            ch = data[i]
            if ch == "\x1b":
                m = re.compile(r"\x1b\[([0-9;?]*)([A-Za-z])").match(data, i)
                if m:
                    p, f = m.groups(); i = m.end()
                    if f == "A":
                        n = int(p or 1)
                        if s.r - n < 0: s.events.append("clamp")
                        s.r = max(0, s.r-n); s.wrap=False
                    elif f == "K" and p == "2": s.rows[s.r] = [" "]*s.W
                    elif f == "h" and p == "?25": s.visible=True
                    elif f == "l" and p == "?25": s.visible=False
                    elif f == "m": pass
                    else: s.events.append(("csi",p,f))
                    continue
                m = re.compile(r"\x1b\].*?(\x1b\\|\x07)").match(data, i)
                if m: i = m.end(); continue
                i += 1; continue
            if ch == "\n": s.c=0; s.wrap=False; s.lf()
            elif ch == "\r": s.c=0; s.wrap=False
            elif ch == "\x07": pass
            else: s.put(ch)
            i += 1
    def lines(s):
        out = ["".join(r).rstrip() for r in s.sb + s.rows]
        while out and out[-1]=="": out.pop()
        return out
