import io, sys, itertools
from term import Screen
from rich.console import Console, RenderGroup
from rich.live import Live
from rich.progress import Progress
from rich.text import Text
W,H=12,4
FR = {0: RenderGroup(), 1:"F1", 2:"G1\nG2", 3:"K1\nK2\nK3", 6:"T1\nT2\nT3\nT4\nT5\nT6"}
def frame_lines(k, overflow, final=False):
    ls = [] if k==0 else FR[k].split("\n")
    if len(ls) > H and not final:
        if overflow=="crop": ls = ls[:H]
        elif overflow=="ellipsis": ls = ls[:H-1]+["    ..."]
    return ls
ops = [("print1",),("print2",),("upd",0,True),("upd",1,True),("upd",2,False),("upd",3,True),("upd",6,True),("refresh",),("stop",)]
bad={}; n=0
for transient in (False, True):
  for overflow in ("ellipsis","crop"):
    for L in range(1,5):
      for hist in itertools.product(ops, repeat=L):
        f = io.StringIO()
        c = Console(width=W, height=H, file=f, force_terminal=True, color_system=None, _environ={}, legacy_windows=False)
        live = Live(FR[1], console=c, auto_refresh=False, transient=transient, vertical_overflow=overflow, redirect_stdout=False, redirect_stderr=False)
        scr = Screen(W,H); printed=[]; cur=1; shown=None; stopped=False
        live.start(); 
        pos=0
        ok=True
        for op in hist:
            if stopped: break
            if op[0]=="print1": c.print("P"); printed.append("P"); shown=cur
            elif op[0]=="print2": c.print("Q1\nQ2"); printed += ["Q1","Q2"]; shown=cur
            elif op[0]=="upd":
                live.update(FR[op[1]], refresh=op[2]); cur=op[1]
                if op[2]: shown=cur
            elif op[0]=="refresh": live.refresh(); shown=cur
            elif op[0]=="stop": live.stop(); stopped=True; shown=cur
            data = f.getvalue()[pos:]; pos=len(f.getvalue()); scr.feed(data)
            exp = printed + ([] if shown is None else ([] if (stopped and transient) else frame_lines(shown, overflow, final=stopped)))
            while exp and exp[-1]=="": exp.pop()
            n+=1
            if scr.lines()!=exp or "clamp" in scr.events:
                key=(transient, overflow, "clamp" in scr.events, stopped, shown)
                if key not in bad: bad[key]=(hist, scr.lines(), exp)
                ok=False; break
        if not stopped: live.stop()
print(n, len(bad))
for k,v in list(bad.items())[:12]: print(k, v)
