import io, itertools, sys, re
from rich.console import Console
from rich.text import Text
from rich.cells import cell_len
console = Console(width=200, file=io.StringIO(), color_system=None)
alpha = ["a","b"," ","あ","́","\n","\t"]
seen={}; n=0
def nonws(s): return [c for c in s if not c.isspace()]
for L in range(0,6):
    for tup in itertools.product(alpha, repeat=L):
        s="".join(tup)
        for W in (2,3,4,5,9):
            for j in ("default","left","center","right","full"):
                n+=1
                t=Text(s)
                try:
                    lines=t.wrap(console, W, justify=j, overflow="fold", tab_size=4)
                except Exception as e:
                    k=("EXC",type(e).__name__); seen.setdefault(k,(s,W,j,str(e))); continue
                out="".join(l.plain for l in lines)
                if nonws(out)!=nonws(s.expandtabs(4) if False else s.replace("\t"," ")):
                    seen.setdefault(("LOSS",j),(s,W,j,[l.plain for l in lines]))
                if any(cell_len(l.plain)>W for l in lines):
                    seen.setdefault(("WIDE",j),(s,W,j,[l.plain for l in lines]))
print(n)
for k,v in seen.items(): print(k, repr(v))
