import itertools, collections, array, re
from collections import deque, Counter, defaultdict
from rich.pretty import pretty_repr
from rich.cells import cell_len
leaves=[0,-1,1.5,True,None,"a","あ","it's","a\nb",b"x",""]
def containers(children):
    yield list(children); yield tuple(children)
    try: yield set(children); yield frozenset(children)
    except TypeError: pass
    try: yield {k:k for k in children}
    except TypeError: pass
    yield {"k%d"%i:c for i,c in enumerate(children)}
    yield deque(children)
    try: yield Counter({c:i+1 for i,c in enumerate(children)})
    except TypeError: pass
    d=defaultdict(int)
    try:
        for i,c in enumerate(children): d[c]=i
        yield d
    except TypeError: pass
    if all(isinstance(c,int) and not isinstance(c,bool) and abs(c)<2**31 for c in children): yield array.array('i', children)
lvl1=[]
for n in (0,1,2):
    for ch in itertools.product(leaves[:7], repeat=n):
        for c in containers(list(ch)): lvl1.append(c)
print(len(lvl1))
lvl2=[]
sub = lvl1[::7][:60]
for n in (1,2):
    for ch in itertools.product(sub+[0,"a"], repeat=n):
        for c in containers(list(ch)): lvl2.append(c)
print(len(lvl2))
env={"deque":deque,"Counter":Counter,"defaultdict":defaultdict,"array":array.array,"frozenset":frozenset,"set":set}
bad={}; n=0
for v in lvl1+lvl2:
    for W in (1,5,10,20,40,80):
        for ind in (1,4):
          for ea in (False,True):
            n+=1
            out=pretty_repr(v, max_width=W, indent_size=ind, expand_all=ea)
            src=re.sub(r"<class '(\w+)'>", r"\1", out)
            try:
                back=eval(src, dict(env))
                ok = type(back)==type(v) and back==v
            except Exception as e:
                ok=False; back=repr(e)
            if not ok:
                k=(type(v).__name__, len(v), type(back).__name__ if not isinstance(back,str) else "EXC")
                bad.setdefault(k,(v,W,ind,ea,out))
            r=repr(v)
            if ok and type(v) in (list,tuple,dict,set,frozenset) and not ea and cell_len(r)<=W and out!=r:
                bad.setdefault(("NOTREPR",type(v).__name__),(v,W,out))
            if ok and type(v) in (list,tuple,dict,set,frozenset):
                for line in out.split("\n"):
                    if cell_len(line)>W and re.search(r"[\[\(\{].*[\]\)\}]", line.strip()) and not re.fullmatch(r"\s*('[^']*'|\"[^\"]*\"): ?.*", line) :
                        bad.setdefault(("WIDE",type(v).__name__),(v,W,out)); break
print(n,len(bad))
for k,v in bad.items(): print(k, repr(v)[:300])
