import sys, threading, time
mon=sys.monitoring; TOOL=3; mon.use_tool_id(TOOL,"vf")
sems={"A":threading.Semaphore(0),"B":threading.Semaphore(0)}
log=[]
names={}
def f(tag):
    x=0
    x+=1
    x+=2
    x+=3
    log.append((tag,"done",x))
turn=["A"]
def on_line(code, line):
    me=names[threading.get_ident()]
    log.append((me,line))
    # strict alternation: hand over to the other thread after every line
    other="B" if me=="A" else "A"
    if other in alive:
        sems[other].release()
        sems[me].acquire()
alive={"A","B"}
mon.register_callback(TOOL, mon.events.LINE, on_line)
mon.set_local_events(TOOL, f.__code__, mon.events.LINE)
def run(tag):
    names[threading.get_ident()]=tag
    sems[tag].acquire()
    f(tag)
    alive.discard(tag)
    other="B" if tag=="A" else "A"
    sems[other].release()
ta=threading.Thread(target=run,args=("A",)); tb=threading.Thread(target=run,args=("B",))
ta.start(); tb.start(); sems["A"].release(); ta.join(5); tb.join(5)
print(ta.is_alive(), tb.is_alive())
print(log)
