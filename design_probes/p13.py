import io, itertools
from rich.console import Console, RenderGroup
from rich.text import Text
from rich.table import Table
from rich.panel import Panel
from rich.padding import Padding
from rich.align import Align
from rich.columns import Columns
from rich.tree import Tree
from rich.rule import Rule
from rich.segment import Segment
from rich.cells import cell_len
from rich.measure import Measurement
from rich import box
console = Console(width=200, file=io.StringIO(), color_system="truecolor", force_terminal=True, legacy_windows=False, _environ={})
def rl(r, W):
    segs=list(console.render(r, console.options.update(width=W)))
    lines=list(Segment.split_lines(segs))
    return ["".join(s.text for s in l if not s.is_control) for l in lines]
TX=["a","ab cd","あい","a\nbb c","","abcdefgh","x あy"]
def mkchild(i):
    if i < len(TX): return Text(TX[i]), (2 if any(cell_len(c)==2 for c in TX[i]) else 1)
    t=Table(box=box.ASCII); t.add_column("h"); t.add_column("k"); t.add_row("a","bb"); t.add_row("ccc","d")
    return t, 9
bad={}; n=0
for ci in range(len(TX)+1):
  for pad in [(0,1),0,(1,2),(0,0,0,3)]:
    for expand in (True,False):
      for title in (None,"t","あ t","long title here"):
        for W in range(3,30):
            child,m=mkchild(ci)
            P=Padding.unpack(pad); mm=m+2+P[1]+P[3]
            if title: mm=max(mm, 8)
            if W<mm: continue
            n+=1
            lines=rl(Panel(child, padding=pad, expand=expand, title=title, box=box.ASCII), W)
            ws=[cell_len(l) for l in lines]
            if len(set(ws))!=1: bad.setdefault(("UNEQ",expand,title is not None),(ci,pad,W,lines)); continue
            if expand and ws[0]!=W: bad.setdefault(("NOTFULL",title),(ci,pad,W,lines)); continue
            inner_w=ws[0]-2-P[1]-P[3]
            child2,_=mkchild(ci)
            exp=rl(child2, inner_w) if inner_w>0 else []
            body=lines[1+P[0]:len(lines)-1-P[2]]
            got=[l[1+P[3]:] for l in body]
            # compare cell-wise prefix
            ok = len(got)==len(exp) and all(g[:len(e.rstrip())].rstrip()==e.rstrip() or g.rstrip(" |").rstrip()==e.rstrip() for g,e in zip(got,exp))
            if not ok: bad.setdefault(("CHILD",ci<len(TX),expand),(ci,pad,W,title,lines,exp))
print(n,len(bad))
for k,v in bad.items(): print(k,repr(v)[:500])
# columns order
labels=["i0","i1","i2","i3","i4"]
bad2={}
for k in range(1,6):
  for eq,ex,cf,r2l in itertools.product((0,1),repeat=4):
    for W in range(2,20):
        lines=rl(Columns(labels[:k], equal=bool(eq), expand=bool(ex), column_first=bool(cf), right_to_left=bool(r2l)), W)
        pos={}
        for li,l in enumerate(lines):
            for lab in labels[:k]:
                c=l.count(lab)
                if c: pos.setdefault(lab,[]).append((li,l.index(lab)))
        if sorted(pos)!=labels[:k] or any(len(v)!=1 for v in pos.values()):
            bad2.setdefault(("COUNT",k,W),(lines,)); continue
        if cf: key=lambda lab:(pos[lab][0][1]*(-1 if r2l else 1), pos[lab][0][0])
        else: key=lambda lab:(pos[lab][0][0], pos[lab][0][1]*(-1 if r2l else 1))
        if sorted(labels[:k], key=key)!=labels[:k]:
            bad2.setdefault(("ORDER",cf,r2l),(k,W,lines))
print(len(bad2))
for k,v in list(bad2.items())[:6]: print(k,v)
