import io, itertools, copy
from rich.console import Console
from rich.text import Text, Span
from rich.cells import cell_len, get_character_cell_size as cw
c = Console(width=100, file=io.StringIO(), color_system=None)
def eff(t):
    out=[]
    for seg in t.render(c):
        for ch in seg.text: out.append((ch, str(seg.style)))
    return out
# reference: list of (ch, tuple_of_styles_in_order)
def rstyle(stack):
    from rich.style import Style
    s=Style.null()
    for x in stack: s = s + c.get_style(x)
    return str(s)
class Ref:
    def __init__(s, chars=None): s.chars=list(chars or [])   # (ch, [styles])
    def plain(s): return "".join(ch for ch,_ in s.chars)
    def eff(s): return [(ch, rstyle(st)) for ch,st in s.chars]
def strip(s): return "".join(ch for ch in s if ch not in "\x08\x0b\x0c\r")
def crop_cells(chars, n):
    out=[]; tot=0
    for ch,st in chars:
        w=cw(ch)
        if tot+w>n:
            if tot<n: out.append((" ", None)) if False else None
            break
        out.append((ch,st)); tot+=w
    return out, tot
inits=["", "a", "ab", "a\x08b", "あb", "a b", "a\tb"]
EV=[("append","x",None),("append","y","red"),("append","\x08z","blue"),("stylize","bold",0,None),("stylize","red",1,3),("stylize","blue",-1,None),
    ("pad_left",1),("pad_right",2),("right_crop",1),("set_length",1),("set_length",4),("truncate",2,"crop"),("truncate",2,"ellipsis"),
    ("getitem",-1),("getitem",0),("slice",1,None),("slice",-2,-1),("expand_tabs",4),("align","center",5),("copy",)]
def apply(t, r, ev):
    k=ev[0]
    if k=="append":
        t.append(ev[1], ev[2]); s=strip(ev[1]); r.chars += [(ch, [ev[2]] if ev[2] else []) for ch in s]
    elif k=="stylize":
        t.stylize(ev[1], ev[2], ev[3]); L=len(r.chars); a=ev[2]; b=ev[3]
        if a<0: a=L+a
        if b is None: b=L
        if b<0: b=L+b
        for i in range(max(a,0), min(b,L)): r.chars[i]=(r.chars[i][0], r.chars[i][1]+[ev[1]])
    elif k=="pad_left": t.pad_left(ev[1]); r.chars=[(" ",[])]*ev[1]+r.chars
    elif k=="pad_right": t.pad_right(ev[1]); r.chars=r.chars+[(" ",[])]*ev[1]
    elif k=="right_crop":
        if len(r.chars)<ev[1]: return None
        t.right_crop(ev[1]); r.chars=r.chars[:len(r.chars)-ev[1]]
    elif k=="set_length":
        t.set_length(ev[1]); L=len(r.chars)
        r.chars = r.chars[:ev[1]] + [(" ",[])]*max(0,ev[1]-L)
    elif k=="truncate":
        t.truncate(ev[1], overflow=ev[2]); 
        if cell_len(r.plain())>ev[1]:
            n = ev[1]-1 if ev[2]=="ellipsis" else ev[1]
            kept,tot = crop_cells(r.chars, n)
            extra=[]
            if tot<n: extra=[(" ","?")]
            if ev[2]=="ellipsis": extra.append(("…","?"))
            r.chars=kept+extra
    elif k=="getitem":
        if not r.chars: return None
        t2=t[ev[1]]; r2=Ref([r.chars[ev[1]]]); return t2,r2
    elif k=="slice":
        t2=t[ev[1]:ev[2]]; r2=Ref(r.chars[ev[1]:ev[2]]); return t2,r2
    elif k=="expand_tabs":
        t.expand_tabs(ev[1]); out=[]; col=0
        for ch,st in r.chars:
            if ch=="\t":
                n=ev[1]-(col%ev[1]); out += [(" ",st)]+[(" ","?")]*(n-1); col+=n
            elif ch=="\n": out.append((ch,st)); col=0
            else: out.append((ch,st)); col+=1
        r.chars=out
    elif k=="align":
        t.align(ev[1], ev[2]); 
        if cell_len(r.plain())>ev[2]:
            kept,tot=crop_cells(r.chars, ev[2]); r.chars=kept+([(" ","?")] if tot<ev[2] else [])
        ex=ev[2]-cell_len(r.plain()); l=ex//2
        r.chars=[(" ",[])]*l + r.chars + [(" ",[])]*(ex-l)
    elif k=="copy":
        return t.copy(), Ref(r.chars)
    return t, r
def compare(t, r):
    if t.plain != r.plain(): return "PLAIN %r vs %r"%(t.plain, r.plain())
    if len(t)!=len(r.chars): return "LEN %d vs %d"%(len(t), len(r.chars))
    e=eff(t)
    for (ch,st),(rch,rst) in zip(e, r.chars):
        if rst=="?": continue
        if st != rstyle(rst): return "STYLE %r: %s vs %s"%(ch, st, rstyle(rst))
    if len(e)!=len(r.chars): return "RENDERLEN"
    return None
bad={}; n=0
for init in inits:
    for D in (1,2,3):
        for hist in itertools.product(EV, repeat=D):
            t=Text(init); r=Ref([(ch,[]) for ch in strip(init)])
            msg=None
            for ev in hist:
                try:
                    res=apply(t,r,ev)
                except Exception as e:
                    msg="EXC %s %s"%(type(e).__name__, e); break
                if res is None: break
                t,r=res
                n+=1
                msg=compare(t,r)
                if msg: break
            if msg:
                key=(ev[0], msg.split()[0], ("\x08" in init) or any(e[0]=="append" and "\x08" in e[1] for e in hist))
                if key not in bad: bad[key]=(init,hist,msg)
print(n,len(bad))
for k,v in bad.items(): print(k, repr(v)[:300])
