import sys, io, time, types, threading
import rich.console, rich.live, rich.live_render, rich.progress, rich.file_proxy
from rich.console import Console
mon = sys.monitoring
TOOL = 3
mon.use_tool_id(TOOL, "vf")
def code_objects(mod):
    out=[]
    def walk(co):
        out.append(co)
        for c in co.co_consts:
            if isinstance(c, types.CodeType): walk(c)
    for name, obj in vars(mod).items():
        if isinstance(obj, types.FunctionType) and obj.__code__.co_filename == mod.__file__: walk(obj.__code__)
        elif isinstance(obj, type):
            for n2, o2 in vars(obj).items():
                f = o2.fget if isinstance(o2, property) else (o2.__func__ if isinstance(o2,(classmethod,staticmethod)) else o2)
                if isinstance(f, types.FunctionType) and f.__code__.co_filename == mod.__file__: walk(f.__code__)
                if isinstance(o2, property) and o2.fset: walk(o2.fset.__code__)
    return out
cos=[]
for m in (rich.console, rich.live, rich.live_render, rich.progress, rich.file_proxy): cos += code_objects(m)
print("code objects", len(cos))
count=[0]; per_thread={}
def on_line(code, line):
    count[0]+=1
    per_thread[threading.get_ident()] = per_thread.get(threading.get_ident(),0)+1
mon.register_callback(TOOL, mon.events.LINE, on_line)
for co in cos: mon.set_local_events(TOOL, co, mon.events.LINE)
c = Console(width=40, file=io.StringIO(), force_terminal=True, color_system="truecolor", _environ={})
c.print("warm")
count[0]=0
t0=time.time()
for i in range(200): c.print("hello [b]world[/b]")
dt=(time.time()-t0)/200
print("per print %.3f ms, line events per print %d"%(dt*1000, count[0]/200))
# thread test
def w(): c.print("x")
th=threading.Thread(target=w); th.start(); th.join()
print("threads seen", len(per_thread))
# INSTRUCTION events on one function
ic=[0]
def on_ins(code, off): ic[0]+=1
mon.register_callback(TOOL, mon.events.INSTRUCTION, on_ins)
mon.set_local_events(TOOL, rich.progress.Progress.advance.__code__, mon.events.LINE|mon.events.INSTRUCTION)
from rich.progress import Progress
p=Progress(console=c, disable=True); t=p.add_task("t"); p.advance(t,1)
print("instructions in advance", ic[0])
