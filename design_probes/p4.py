import io, itertools, sys, random
from rich.console import Console, RenderGroup
from rich.text import Text
from rich.table import Table
from rich.panel import Panel
from rich.padding import Padding
from rich.align import Align
from rich.columns import Columns
from rich.constrain import Constrain
from rich.tree import Tree
from rich.rule import Rule
from rich.bar import Bar
from rich.progress_bar import ProgressBar
from rich.segment import Segment
from rich.cells import cell_len
from rich.measure import Measurement
from rich import box

console = Console(width=200, file=io.StringIO(), color_system="truecolor", force_terminal=True, legacy_windows=False)
def render_lines(r, W):
    opts = console.options.update(width=W)
    segs = [s for s in console.render(r, opts)]
    lines = list(Segment.split_lines(segs))
    return [sum(s.cell_length for s in l) for l in lines], ["".join(s.text for s in l if not s.is_control) for l in lines]

TEXTS = ["a", "ab cd", "あい", "a\nbb c", "éx", "aあ b", "", "abcdefgh", "ああああ"]
rnd = random.Random(1)
def wide(t): return any(cell_len(c)==2 for c in t)
def gen(depth):
    """return (desc, factory, min)"""
    k = rnd.choice(["text","text","panel","padding","align","table","columns","tree","rule","bar","group","constrain"]) if depth>0 else "text"
    if k=="text":
        t = rnd.choice(TEXTS); j = rnd.choice([None,"left","center","right","full"]); o=rnd.choice([None,"fold","crop","ellipsis"])
        return (f"Text({t!r},{j},{o})", lambda: Text(t, justify=j, overflow=o), 2 if wide(t) else 1)
    if k=="panel":
        d,f,m = gen(depth-1); pad = rnd.choice([(0,1),0,(1,2),(0,0,0,3)]); ex=rnd.choice([True,False]); title=rnd.choice([None,"t","あ title"]); bx=rnd.choice([box.ROUNDED, box.ASCII, box.DOUBLE])
        P = Padding.unpack(pad)
        mm = m+2+P[1]+P[3]
        if title: mm = max(mm, 7 if title=="t" else 8)
        return (f"Panel({d},pad={pad},expand={ex},title={title!r})", lambda: Panel(f(), padding=pad, expand=ex, title=title, box=bx), mm)
    if k=="padding":
        d,f,m = gen(depth-1); pad = rnd.choice([1,(0,2),(1,0,1,3)]); ex=rnd.choice([True,False]); P=Padding.unpack(pad)
        return (f"Padding({d},{pad},expand={ex})", lambda: Padding(f(), pad, expand=ex), m+P[1]+P[3])
    if k=="align":
        d,f,m = gen(depth-1); a=rnd.choice(["left","center","right"]); p=rnd.choice([True,False]); w=rnd.choice([None,5,30])
        return (f"Align({d},{a},pad={p},width={w})", lambda: Align(f(), a, pad=p, width=w), m)
    if k=="constrain":
        d,f,m = gen(depth-1); w=rnd.choice([None,3,10,50])
        return (f"Constrain({d},{w})", lambda: Constrain(f(), w), m)
    if k=="group":
        subs=[gen(depth-1) for _ in range(rnd.choice([1,2,3]))]; fit=rnd.choice([True,False])
        return (f"Group({[s[0] for s in subs]},fit={fit})", lambda: RenderGroup(*[s[1]() for s in subs], fit=fit), max(s[2] for s in subs))
    if k=="rule":
        t=rnd.choice(["","ti","あ"]); ch=rnd.choice(["─","=-","あ"]); al=rnd.choice(["left","center","right"])
        return (f"Rule({t!r},{ch!r},{al})", lambda: Rule(t, characters=ch, align=al), 2 if (wide(t) or wide(ch)) else 1)
    if k=="bar":
        if rnd.random()<0.5:
            w=rnd.choice([None,3,40]); tot=rnd.choice([0,10,100]); comp=rnd.choice([0,5,10,200]); pulse=rnd.choice([False,True])
            return (f"ProgressBar({tot},{comp},{w},{pulse})", lambda: ProgressBar(total=tot, completed=comp, width=w, pulse=pulse, animation_time=1.0), 1)
        w=rnd.choice([None,3,40]); b,e=rnd.choice([(0,5),(2,7),(3,3),(0,10)])
        return (f"Bar(10,{b},{e},{w})", lambda: Bar(10,b,e,width=w), 1)
    if k=="tree":
        subs=[gen(depth-1) for _ in range(rnd.choice([1,2,3]))]
        shape=rnd.choice(["flat","chain"])
        def mk():
            t=Tree(subs[0][1]())
            node=t
            for s in subs[1:]:
                n=node.add(s[1]())
                if shape=="chain": node=n
            return t
        if shape=="flat": m=max([subs[0][2]]+[s[2]+4 for s in subs[1:]])
        else: m=max(s[2]+4*i for i,s in enumerate(subs))
        return (f"Tree({shape},{[s[0] for s in subs]})", mk, m)
    if k=="columns":
        subs=[gen(depth-1) for _ in range(rnd.choice([1,2,3,4]))]
        eq=rnd.choice([True,False]); ex=rnd.choice([True,False]); cf=rnd.choice([True,False]); rtl=rnd.choice([True,False]); al=rnd.choice([None,"left","center","right"]); pad=rnd.choice([(0,1),0,(0,2)])
        return (f"Columns({[s[0] for s in subs]},equal={eq},expand={ex},cf={cf},rtl={rtl},align={al},pad={pad})", lambda: Columns([s[1]() for s in subs], equal=eq, expand=ex, column_first=cf, right_to_left=rtl, align=al, padding=pad), max(s[2] for s in subs))
    if k=="table":
        ncol=rnd.choice([1,2,3]); nrow=rnd.choice([0,1,2])
        cells=[[gen(depth-1) for _ in range(ncol)] for _ in range(nrow)]
        heads=[rnd.choice(["h","あ","head er",""]) for _ in range(ncol)]
        opts=dict(box=rnd.choice([box.HEAVY_HEAD, None, box.ASCII, box.SIMPLE, box.MINIMAL]), show_header=rnd.choice([True,False]), show_footer=rnd.choice([True,False]), show_edge=rnd.choice([True,False]), show_lines=rnd.choice([True,False]), leading=rnd.choice([0,0,1]), padding=rnd.choice([(0,1),0,(0,2),(1,1)]), pad_edge=rnd.choice([True,False]), collapse_padding=rnd.choice([True,False]), expand=rnd.choice([True,False]), title=rnd.choice([None,"ti tle"]), caption=rnd.choice([None,"cap"]))
        colopts=[dict(justify=rnd.choice(["left","center","right","full"]), overflow=rnd.choice(["fold","crop","ellipsis"]), ratio=rnd.choice([None,None,1,2]), max_width=rnd.choice([None,None,3,10])) for _ in range(ncol)]
        def mk():
            t=Table(**opts)
            for h,co in zip(heads,colopts): t.add_column(h, footer=h, **co)
            for row in cells: t.add_row(*[c[1]() for c in row])
            return t
        P=Padding.unpack(opts["padding"])
        t0=mk()
        colmins=[]
        for ci in range(ncol):
            cm=max([2 if wide(heads[ci]) else 1]+[row[ci][2] for row in cells])
            colmins.append(cm + t0._get_padding_width(ci) if True else 0)
        m=sum(colmins)+t0._extra_width
        return (f"Table({opts},{colopts},{heads},{[[c[0] for c in r] for r in cells]})", mk, m)

bad=0; tot=0; seen=set()
N=int(sys.argv[1]) if len(sys.argv)>1 else 3000
for i in range(N):
    d,f,m = gen(3)
    for W in list(range(m, m+6))+[m+11, 40, 80]:
        try:
            ws, ls = render_lines(f(), W)
        except Exception as e:
            key=("EXC",type(e).__name__,d.split("(")[0])
            if key not in seen:
                seen.add(key); print("EXC", type(e).__name__, e, d, W)
            continue
        tot+=1
        if any(w>W for w in ws):
            bad+=1
            key=d
            if key not in seen and len(seen)<25:
                seen.add(key); print("OVER W=",W,"min=",m, max(ws), d); 
                for l in ls[:6]: print("   |"+l+"|")
            break
print(tot,bad)
