import sys, multiprocessing as mp
sys.path.insert(0, "/verif")
from vf import use_repo
use_repo()
from vf.checks import c14
from vf.par import Result
tier = sys.argv[1] if len(sys.argv) > 1 else "quick"
def excluded(ch):
    for k, v, d in ch:
        if k == "table0": return True
        if k in ("columns", "columns0") and "width" in d: return True
    return False
def work(i):
    res = Result()
    with c14._Timer():
        for idx, ch in enumerate(c14.trees(tier)):
            if idx % 8 != i or excluded(ch): continue
            for w in c14.WIDTHS:
                c14.check_tree(ch, w, res)
    return res
if __name__ == "__main__":
    with mp.get_context("fork").Pool(4) as p:
        tot = Result()
        for r in p.imap_unordered(work, range(8)): tot.merge(r)
    print(tot.evaluations, len(tot.sigs))
    for k, v in tot.violations.items(): print(k, tot.vcount[k], v[1], v[2][:300])
