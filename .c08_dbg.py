import sys,time,os
sys.path.insert(0, os.environ.get("VF_REPO","/repo"))
sys.path.insert(0,'/verif')
from vf.checks import c08
fams = sys.argv[2:] or list(c08.GENS)
tier = sys.argv[1]
for fam in fams:
    t=time.time()
    res=c08.run_shard({"fam":fam,"i":0,"n":int(os.environ.get("N","1"))}, tier, 0)
    print("==",fam,"evals",res.evaluations,"sigs",len(res.sigs),"nontrivial",len(res.nontrivial),"t",round(time.time()-t,1))
    for k,(sz,cj,det) in sorted(res.violations.items()):
        print("  VIOL",k,res.vcount[k]); print("     ",cj[:400]); print("     ",det[:400])
