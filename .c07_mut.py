import subprocess, sys, os, re
WT="/tmp/wt_c07"
MUTS=[
 ("M1 ratio_distribute ceil->floor", "rich/_ratio.py", "from math import ceil", "from math import floor as ceil"),
 ("M2 set_shape ignores height", "rich/segment.py", "for line, _ in zip_longest(lines, range(height)):", "for line, _ in zip_longest(lines, range(len(lines))):"),
 ("M3 get_row edge bookkeeping (head row always with edge)", "rich/table.py", '_box.get_row(widths, "head", edge=show_edge), border_style', '_box.get_row(widths, "head", edge=True), border_style'),
 ("M4 _extra_width off by one", "rich/table.py", "            width += len(self.columns) - 1", "            width += len(self.columns)"),
 ("M5 collapse: max_reduce min->max", "rich/table.py", "max_reduce = [min(excess_width, column_difference)] * len(widths)", "max_reduce = [max(excess_width, column_difference)] * len(widths)"),
 ("M6 rows inserted at the front of a column", "rich/table.py", "            column._cells.append(renderable)", "            column._cells.insert(0, renderable)"),
 ("M7 row height min instead of max", "rich/table.py", "                max_height = max(max_height, len(lines))", "                max_height = min(max_height, len(lines))"),
 ("M8 ratio_reduce round->int", "rich/_ratio.py", "distributed = min(maximum, round(ratio * total_remaining / total_ratio))", "distributed = min(maximum, int(ratio * total_remaining / total_ratio))"),
 ("M9 divider after every cell (dropped 'not')", "rich/table.py", "                        if not last_cell:\n                            yield divider", "                        if last_cell:\n                            yield divider"),
 ("M10 get_row: cross appended after last column too", "rich/box.py", "            append(horizontal * width)\n            if not last:\n                append(cross)", "            append(horizontal * width)\n            append(cross)"),
]
sel=sys.argv[1:] 
base=subprocess.run(["git","-C",WT,"diff"],capture_output=True,text=True).stdout
open("/verif/.c07_base.diff","w").write(base)
for name,f,old,new in MUTS:
    if sel and name.split()[0] not in sel: continue
    p=os.path.join(WT,f); s=open(p).read()
    assert s.count(old)==1,(name,s.count(old))
    open(p,"w").write(s.replace(old,new))
    r=subprocess.run(["/venv/bin/python","-m","vf","check","C07","--tier","quick"],cwd="/verif",capture_output=True,text=True,
                     env=dict(os.environ,VF_REPO=WT,VF_WORKERS="6"))
    keys=re.findall(r"key=(\S+) cases=(\d+)",r.stdout)
    tail=r.stdout.strip().splitlines()[-1] if r.stdout.strip() else r.stderr[-300:]
    print(name,"| rc",r.returncode,"|",keys,"|",tail,flush=True)
    open(p,"w").write(s)
