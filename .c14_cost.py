import sys, time
sys.path.insert(0, "/verif")
from vf import use_repo
use_repo()
from vf.checks import c14
tier = "thorough"
shards = c14.plan(tier, 0)
print(len(shards))
import collections
byfam = collections.defaultdict(list)
for s in shards: byfam[s.get("fam", "tree")].append(s)
for fam, ss in byfam.items():
    # time 2 shards per family (middle ones)
    pick = [ss[len(ss)//3], ss[2*len(ss)//3]]
    tot = 0; ev = 0
    for s in pick:
        t = time.process_time(); r = c14.run_shard(s, tier, 0); dt = time.process_time() - t
        tot += dt; ev += r.evaluations
    print(fam, "shards", len(ss), "avg cpu/shard %.1f s" % (tot/2), "-> est total %.0f s" % (tot/2*len(ss)), "evals/shard", ev//2, flush=True)
