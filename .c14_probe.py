import io, time, traceback
from rich.console import Console
from rich.color import Color
from rich.style import Style
from rich.ansi import AnsiDecoder
from rich.columns import Columns
from rich.table import Table
from rich.panel import Panel
from rich.text import Text
from rich.measure import Measurement
from rich import markup
def con(w): return Console(file=io.StringIO(), width=w, height=25, force_terminal=True, color_system="truecolor", legacy_windows=False, _environ={})
for f in (lambda: Color.parse("rgb(,,)"), lambda: list(AnsiDecoder().decode("\x1b[²m")), lambda: list(con(5).render(Columns(["a"], width=30))), lambda: list(con(20).render(Table(expand=True))), lambda: Measurement.get(con(20), Table(expand=True)), lambda: Measurement.get(con(5), Columns(["a"], width=30))):
    try: f(); print("ok")
    except Exception as e: print(type(e).__name__, e, traceback.extract_tb(e.__traceback__)[-1][:3])
c=con(80)
t=time.process_time()
for i in range(2000): c.print("[b]x[/b] rgb %d"%i)
print("print markup", (time.process_time()-t)/2000*1e6, "us")
t=time.process_time()
for i in range(2000): c.print("a\x1bあ\t %d"%i, markup=False)
print("print nomarkup", (time.process_time()-t)/2000*1e6, "us")
t=time.process_time()
for i in range(20000): 
    try: markup.render("[b]x[/b] [/]rgb %d"%i)
    except Exception: pass
print("markup.render", (time.process_time()-t)/20000*1e6, "us")
t=time.process_time()
for i in range(20000): 
    try: Color.parse("rgb(%d,1,"%i)
    except Exception: pass
print("color", (time.process_time()-t)/20000*1e6, "us")
t=time.process_time()
for i in range(20000): 
    try: Style.parse("bold not %d on red"%i)
    except Exception: pass
print("style", (time.process_time()-t)/20000*1e6, "us")
t=time.process_time()
for i in range(20000): 
    list(AnsiDecoder().decode("\x1b[1;38;5;%dm a\x1b]8;"%i))
print("ansi", (time.process_time()-t)/20000*1e6, "us")
cs={w:con(w) for w in list(range(1,25))+[40,200]}
def tb():
    t=Table("h","k", expand=True); t.add_row("a", Panel(Text("ab cd"))); t.add_row("ccc","d"); return t
for name,mk in (("panel", lambda: Panel(Text("ab cd"))), ("table", tb), ("cols", lambda: Columns([Text("a"),Text("ab cd"), Panel(Text("x"))]))):
    t=time.process_time()
    for i in range(20):
        for w,c in cs.items():
            r=mk(); list(c.render(r, c.options)); Measurement.get(c, r, w)
    print(name, (time.process_time()-t)/20*1e3, "ms per tree (26 widths)")
